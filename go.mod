module verif

go 1.26

require (
	github.com/ipfs/go-cid v0.0.7
	github.com/ipfs/ipfs-cluster v0.0.0
	github.com/libp2p/go-libp2p v0.14.3
	github.com/libp2p/go-libp2p-core v0.8.5
	github.com/libp2p/go-libp2p-gorpc v0.1.3
	github.com/libp2p/go-libp2p-pubsub v0.4.1
	github.com/multiformats/go-multiaddr v0.3.3
	github.com/multiformats/go-multihash v0.0.15
)

require (
	contrib.go.opencensus.io/exporter/jaeger v0.2.1 // indirect
	contrib.go.opencensus.io/exporter/prometheus v0.3.0 // indirect
	github.com/alecthomas/template v0.0.0-20190718012654-fb15b899a751 // indirect
	github.com/alecthomas/units v0.0.0-20190924025748-f65c72e2690d // indirect
	github.com/beorn7/perks v1.0.1 // indirect
	github.com/btcsuite/btcd v0.21.0-beta // indirect
	github.com/cespare/xxhash/v2 v2.1.1 // indirect
	github.com/davidlazar/go-crypto v0.0.0-20200604182044-b73af7476f6c // indirect
	github.com/gogo/protobuf v1.3.2 // indirect
	github.com/golang/groupcache v0.0.0-20200121045136-8c9f03a8e57e // indirect
	github.com/golang/protobuf v1.5.2 // indirect
	github.com/google/gopacket v1.1.19 // indirect
	github.com/gorilla/websocket v1.4.2 // indirect
	github.com/hashicorp/golang-lru v0.5.4 // indirect
	github.com/huin/goupnp v1.0.0 // indirect
	github.com/ipfs/go-ipfs-util v0.0.2 // indirect
	github.com/ipfs/go-log v1.0.5 // indirect
	github.com/ipfs/go-log/v2 v2.2.0 // indirect
	github.com/jackpal/go-nat-pmp v1.0.2 // indirect
	github.com/jbenet/go-temp-err-catcher v0.1.0 // indirect
	github.com/jbenet/goprocess v0.1.4 // indirect
	github.com/kelseyhightower/envconfig v1.4.0 // indirect
	github.com/klauspost/cpuid/v2 v2.0.4 // indirect
	github.com/koron/go-ssdp v0.0.0-20191105050749-2e1c40ed0b5d // indirect
	github.com/lanzafame/go-libp2p-ocgorpc v0.1.1 // indirect
	github.com/libp2p/go-addr-util v0.0.2 // indirect
	github.com/libp2p/go-buffer-pool v0.0.2 // indirect
	github.com/libp2p/go-eventbus v0.2.1 // indirect
	github.com/libp2p/go-libp2p-autonat v0.4.2 // indirect
	github.com/libp2p/go-libp2p-discovery v0.5.0 // indirect
	github.com/libp2p/go-libp2p-nat v0.0.6 // indirect
	github.com/libp2p/go-libp2p-netutil v0.1.0 // indirect
	github.com/libp2p/go-libp2p-peerstore v0.2.7 // indirect
	github.com/libp2p/go-libp2p-pnet v0.2.0 // indirect
	github.com/libp2p/go-libp2p-testing v0.4.0 // indirect
	github.com/libp2p/go-libp2p-transport-upgrader v0.4.2 // indirect
	github.com/libp2p/go-msgio v0.0.6 // indirect
	github.com/libp2p/go-nat v0.0.5 // indirect
	github.com/libp2p/go-netroute v0.1.6 // indirect
	github.com/libp2p/go-ws-transport v0.4.0 // indirect
	github.com/matttproud/golang_protobuf_extensions v1.0.1 // indirect
	github.com/miekg/dns v1.1.41 // indirect
	github.com/minio/blake2b-simd v0.0.0-20160723061019-3f5f724cb5b1 // indirect
	github.com/minio/sha256-simd v1.0.0 // indirect
	github.com/mr-tron/base58 v1.2.0 // indirect
	github.com/multiformats/go-base32 v0.0.3 // indirect
	github.com/multiformats/go-base36 v0.1.0 // indirect
	github.com/multiformats/go-multiaddr-dns v0.3.1 // indirect
	github.com/multiformats/go-multiaddr-fmt v0.1.0 // indirect
	github.com/multiformats/go-multiaddr-net v0.2.0 // indirect
	github.com/multiformats/go-multibase v0.0.3 // indirect
	github.com/multiformats/go-multistream v0.2.2 // indirect
	github.com/multiformats/go-varint v0.0.6 // indirect
	github.com/opentracing/opentracing-go v1.2.0 // indirect
	github.com/pkg/errors v0.9.1 // indirect
	github.com/prometheus/client_golang v1.11.0 // indirect
	github.com/prometheus/client_model v0.2.0 // indirect
	github.com/prometheus/common v0.26.0 // indirect
	github.com/prometheus/procfs v0.6.0 // indirect
	github.com/prometheus/statsd_exporter v0.20.0 // indirect
	github.com/sirupsen/logrus v1.6.0 // indirect
	github.com/uber/jaeger-client-go v2.25.0+incompatible // indirect
	github.com/ugorji/go/codec v1.2.6 // indirect
	github.com/whyrusleeping/timecache v0.0.0-20160911033111-cfcb2f1abfee // indirect
	go.opencensus.io v0.23.0 // indirect
	go.uber.org/atomic v1.7.0 // indirect
	go.uber.org/multierr v1.7.0 // indirect
	go.uber.org/zap v1.16.0 // indirect
	golang.org/x/crypto v0.0.0-20210616213533-5ff15b29337e // indirect
	golang.org/x/net v0.0.0-20210423184538-5f58ad60dda6 // indirect
	golang.org/x/sync v0.0.0-20210220032951-036812b2e83c // indirect
	golang.org/x/sys v0.0.0-20210615035016-665e8c7367d1 // indirect
	golang.org/x/text v0.3.6 // indirect
	gonum.org/v1/gonum v0.0.0-20190926113837-94b2bbd8ac13 // indirect
	google.golang.org/api v0.29.0 // indirect
	google.golang.org/genproto v0.0.0-20200526211855-cb27e3aa2013 // indirect
	google.golang.org/grpc v1.33.2 // indirect
	google.golang.org/protobuf v1.27.1 // indirect
	gopkg.in/alecthomas/kingpin.v2 v2.2.6 // indirect
	gopkg.in/yaml.v2 v2.3.0 // indirect
)

replace github.com/ipfs/ipfs-cluster => /repo

replace github.com/libp2p/go-libp2p-quic-transport => ./stubs/libp2pquic
