#!/bin/bash
# Runs the thorough tier of every claimed property from a snapshot of /verif
# (vp run), writing evidence and replays into the snapshot. usage: thorough_all.sh <VERIF_SEED> [ids...]
export GOFLAGS=-mod=mod GOPROXY=off GOSUMDB=off GOTOOLCHAIN=local
export VERIF_DIR=$PWD VERIF_SEED=${1:-2}
[ -n "$VP_RUN_REPO" ] && export VERIF_REPO=$VP_RUN_REPO
shift
ids=${@:-C05 C06 C16 C03 C04 C09 C10 C13 C14 C07 C02 C01 C17 C18}
/opt/veriftools/go1.26.8/bin/go build -o bin/vcheck ./cmd/vcheck || exit 2
for id in $ids; do
  ./bin/vcheck $id --tier thorough > thorough.$id.log 2>&1
  echo "$id exit=$? $(grep "^$id thorough" thorough.$id.log | cut -c1-220)"
  grep -E "^VIOLATION|clause=|TROUBLE|never hit|determinism self" thorough.$id.log | cut -c1-300 | head -10
done
