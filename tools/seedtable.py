#!/usr/bin/env python3
# Regenerates the table of DESIGN.md section 0.6 from /verif/seeded/*/meta.json (in place).
import json, os, re
root = "/verif/seeded"
def key(d):
    m = re.match(r"(C\d+)-m(\d+)", d)
    return (m.group(1), int(m.group(2)))
rows, after = [], 0
for d in sorted(os.listdir(root), key=key):
    m = json.load(open(os.path.join(root, d, "meta.json")))
    summ = " ".join(str(m.get("summary", "")).split())
    if len(summ) > 110:
        summ = summ[:110] + "…"
    det = str(m.get("detected_as", ""))
    note = " ".join(str(m.get("note", "") or "").split())
    if len(note) > 150:
        note = note[:150] + "…"
    if "after" in str(m.get("detection", "")):
        after += 1
        det = "(after) " + det
    if len(det) > 100:
        det = det[:100]
    rows.append("| %s | %s | %s | %s |" % (d, summ.replace("|", "/"), det.replace("|", "/"), note.replace("|", "/")))
table = "| change | what was changed | caught as | what the check lacked at first |\n|---|---|---|---|\n" + "\n".join(rows) + "\n"
p = "/verif/DESIGN.md"
s = open(p).read()
a = s.index("| change | what was changed | caught as |")
b = s.index("\n---", a)
s = s[:a] + table + s[b:]
open(p, "w").write(s)
print(len(rows), "changes,", after, "caught only after strengthening")
