#!/usr/bin/env python3
"""Writes /verif/MANIFEST.json from the table below and validates it."""
import json, os, sys
HERE = os.path.dirname(os.path.dirname(os.path.abspath(__file__)))
TECH = "deterministic simulation with fault injection (seeded plans in a synctest bubble on a deterministic runtime; reference-model and invariant oracles)"

def chk(pid, level, text, note, ref, engine, technique=TECH):
    return {
        "property_id": pid,
        "quick_cmd": "./bin/vcheck %s --tier quick" % pid,
        "thorough_cmd": "./bin/vcheck %s --tier thorough" % pid,
        "evidence_file": "/verif/evidence/%s.json" % pid,
        "replay_cmd_template": "./bin/vcheck %s --replay {path}" % pid,
        "engine": engine,
        "level_claimed": {"category": level, "text": text, "design_ref": ref},
        "level_note": note,
        "technique": technique,
    }

CHECKS = [
    chk("C01", "exploration",
        "Seeded search over histories of a real 1-4 peer Raft cluster (ipfs-cluster's consensus/raft over go-libp2p-raft, hashicorp/raft, BoltDB and the file snapshot store) on a simulated network with partitions, resets, stalls, process kills (copy of the tmpfs data folder at the kill instant, restart on the copy), graceful stops and snapshot/truncation knobs that force snapshot installs onto non-empty replicas. A recording datastore under dsstate yields every replica's applied writes in order; oracles: all applied runs are contiguous stretches of one sequence (operations ordered by first application), every live replica serves the fold of the prefix it has applied, acknowledged operations were applied before the call returned and are in the sequence, OfflineState after a graceful stop equals the applied prefix, every applied change reached the local tracker with identical content, and a fresh write commits within 120 simulated seconds after the last fault. Sampling, not proof.",
        "Disk model is process kill (no torn writes inside BoltDB); failed/timed-out calls may or may not have committed; how fast a lagging replica catches up is not judged; exact-trace replay of this heavy stack is >= 90% (one process per plan), oracles are schedule independent. Known finding: pins with origins do not survive the Raft log codec (reported, then explored with origins stripped). Progress is not demanded while hashicorp/raft v1.1.1 is in its snapshot-install loop (DESIGN 0.5), and the final wait is cut short there. A plan that uses more real time than its budget on the machine at hand is ended at a step boundary and reported as abandoned in the evidence (plans_abandoned_wall_budget), not as trouble (DESIGN 0.3 F26).",
        "DESIGN.md §6 C01", "raftsim"),
    chk("C02", "exploration",
        "Seeded search over histories of 1-4 real CRDT replicas (consensus/crdt over go-ds-crdt, ipfs-lite bitswap, signed gossipsub and the dual DHT on a simulated network): LogPin/LogUnpin with batching disabled / size-triggered / age-triggered, bursts that put pin and unpin of one CID into one batch window and overflow the queue, partitions, latency skews, datastore write failures placed in the middle of a batch, trust changes. Oracles after a clean reconnection, a final marker write per replica (evidence that updates were exchanged) and a long quiet period: per-CID submission order on the submitting replica (later failed calls may or may not have landed), queue-full operations have no effect anywhere, mutually trusting replicas that hold each other's marker hold equal pinsets, no value appears that nobody submitted, updates of a never-trusted publisher are absent, and the last tracker call per CID agrees with the pinset. Sampling, not proof.",
        "Which value wins between concurrent writers is not prescribed; a replica whose own datastore failed is not judged for convergence or hand-off (the statement lists commit failures of the submitter's batch); bare connection resets are not generated and the end game starts from a clean reconnection because gossipsub v0.4.1 can stay deaf after sub-second link flaps. Two known findings in go-ds-crdt v0.1.21 behaviour are reported as KNOWN-FINDING.",
        "DESIGN.md §6 C02", "crdtsim"),
    chk("C03", "exploration",
        "Seeded search over peer sets, per-peer metric histories on the fake clock, current allocations, exclusion and priority lists and factor pairs: a real Cluster with the real allocators decides allocations (Pin, BlockAllocate, PeerRemove-driven re-pins) and each decision is judged against the monitor table read at the same simulated instant (no duplicate, added peers usable and not excluded, healthy holders kept, min <= healthy holders <= max, priority then strategy order, failure below min leaves the pinset untouched, factor -1 stores no allocations). Sampling, not proof.",
        "Ties may fall either way; a decision taken in the exact instant a metric expires is not judged; the consensus, monitor shell, tracker and IPFS are models (the freshness filter inside the monitor is the real metrics.Store).",
        "DESIGN.md §6 C03", "clustersim"),
    chk("C04", "exploration",
        "Seeded histories of Pin/PinPath/PinUpdate/Unpin/UnpinPath with every option combination against a real Cluster; after every call the returned error class and the whole pinset are compared with an executable reference model of the statement (refusal rules, identical re-pin keeps allocations, any changed/added/removed option is stored, unpin removes exactly the entry or the sharded triple, update copies allocations and options and keeps the source). Sampling, not proof.",
        "Consensus is a single-copy model over the real dsstate; expiry compared in whole seconds; empty metadata keys/values and updates onto sharded entries are not generated because the statement does not determine them.",
        "DESIGN.md §6 C04", "clustersim"),
    chk("C10", "exploration",
        "Seeded search over pinsets (any allocations, factor pairs, options, entries created by pin-update), peersets of 1-8 real Cluster peers sharing one model consensus with commit latency, survivor metric states, re-pinning and follower switches: one member fails (ping alert delivered to every survivor, sequentially or overlapping, possibly twice) or is removed with PeerRemove; the pinset before/after and the per-peer consensus call log decide: nothing dropped, untouched entries byte-identical, under-replicated entries re-homed to usable peers other than the failed one with all options preserved and by exactly one survivor; StateSync on every peer after the clock moved unpins each expired entry exactly once and no unexpired one. Sampling, not proof.",
        "All peers share one metric view and agree on the peerset (given in the statement); follower mode is all-or-none; entries expiring around the failure instant are not judged for re-homing.",
        "DESIGN.md §6 C10", "clustersim"),
    chk("C05", "exploration",
        "Seeded search over tracker histories: the real stateless tracker + operation tracker run against a model pinset and a model IPFS daemon whose calls the plan parks, reorders, fails, loses or lets be cancelled; at every quiescent instant the daemon must match the last instruction or the status must be an error status, and after recover rounds with a healthy daemon it must match the pinset including the pin mode. Sampling, not proof.",
        "Trusted: the model daemon (cancellation is a barrier; direct-over-recursive is refused as in go-ipfs), gorpc local calls, the synctest bubble and the patched runtime. Interleavings inside one simulated instant are chosen by the runtime tie-break seed, not enumerated.",
        "DESIGN.md §6 C05", "trackersim"),
    chk("C06", "exploration",
        "Part 1 (trackersim): same histories as C05; on every quiescent peer Status(cid) and StatusAll are compared by class with each other and with the facts (pinset entry, daemon content, outcome of the last operation), and 19 filters are checked against the filter law. Part 2 (clustersim): 1-4 real Cluster peers plus members that are down answer Cluster.Status(cid) and the unfiltered Cluster.StatusAll() at an observer while links are cut and each peer's tracker reports what the plan dictates; the peer map must hold every member exactly once: the own report of allocated reachable peers, cluster_error for allocated unreachable ones, remote for other members, unpinned everywhere for items outside the pinset. Sampling, not proof.",
        "Views are compared by class, so pin_error vs unexpectedly_unpinned is agreement. In part 2 the trackers behind the peers are models (they report what the plan says); the filtered cluster-wide listing is not judged.",
        "DESIGN.md §6 C06", "trackersim"),
    chk("C07", "exploration",
        "A real Cluster whose consensus component is the real Raft or the real CRDT implementation (trust: Raft / explicit list / empty list / trust-all, then Trust/Distrust at plan-chosen points) is called over libp2p by real gorpc clients: every endpoint found by reflection over the five RPC service types x {self, trusted remote, untrusted remote} is called in a plan-chosen order (a complete walk of the table per walk step) and the outcome is compared with what the statement dictates: untrusted callers get only identity, version and the join handshake (default deny, also for endpoints nobody classified), local-only endpoints are refused to every remote caller, self is never refused, nothing open to an untrusted caller is refused to a trusted one, and a refused call leaves tracker, IPFS, blocks and pinset untouched. Pubsub clause (crdtsim part): updates published by a replica that nobody ever trusted never appear at the others, under partitions and latency skews. Sampling over trust histories and call orders; the endpoint x caller table is walked completely in every plan.",
        "Which endpoints are local-only vs peer-to-peer is a specification table written from the statement's categories (harness/clustersim/c07.go); an endpoint in the code that the table does not name stops the check with exit 2. A publisher that some trusted replica trusts is vouched for (its updates are re-published by that replica).",
        "DESIGN.md §6 C07", "clustersim+crdtsim"),
    chk("C09", "exploration",
        "Seeded search over metric arrival histories under the fake clock: the real Store/Window/Checker (bare) and the real pubsubmon Monitor over real gossipsub on mocknet receive arrivals with chosen validity and TTLs, window overflows, peerset changes, peer removals and partitions; every read is compared with a reference table at that simulated instant (latest per peer, valid, unexpired, member) and the alert history is judged per expiry episode (never while fresh, at most once, at least once when the expiry rule applies). Sampling, not proof.",
        "At the exact expiry instant either answer is accepted; with >= 6 samples no upper bound on alert delay is asserted (accrual detector); a renewal that arrives and expires between two checker rounds does not demand its own alert; metrics that travel over gossipsub get structural clauses only. The publish-cadence clause (informer/ping loops of Cluster) is decided in clustersim when built.",
        "DESIGN.md §6 C09", "monsim"),
    chk("C13", "exploration",
        "The real adder (importer pipeline, single and sharding DAG services, multi-destination BlockAdder over gorpc on a simulated network) adds generated file trees with generated import parameters to 1-4 destination peers while BlockPut fails at chosen blocks on chosen destinations (IPFS error, or the link to the destination is cut), the same block fails everywhere, or BlockAllocate / Cluster.Pin fail. On success the union of delivered blocks must be closed under links from the root, every file must read back byte-identical through the go-unixfs reader, the root must equal the root computed without sharding and (single files) by the go-unixfs importer called directly, and exactly the expected pins must have reached Cluster.Pin (single: root with the requested options and the allocations the blocks were sent to; sharded: meta + cluster-DAG + shards whose links cover every content block exactly once, each shard under its limit and pinned deep enough for its links DAG). On failure no root/meta pin may exist. Sampling, not proof.",
        "Cluster.BlockAllocate/Pin and IPFSConnector.BlockPut are recording models; the file-tree and parameter dimension is input generation carried because the fault and multi-destination dimensions need realistic DAGs.",
        "DESIGN.md §6 C13", "addersim"),
    chk("C14", "exploration",
        "In the raftsim world a generated pinset is built on a real single-peer Raft, stopped gracefully (snapshot on shutdown), read with OfflineState, exported as a JSON stream through the real StateManager, imported into another base directory that may already hold a different pinset (import replaces), and a peer is started on the imported snapshot; then CleanupRaft is called 1-5 times with backups_rotate 1-6 and pre-existing backups while a directory model predicts the raft.old.N folders and the newest backup must still yield the pre-clean pinset; then a peerstore file is saved, polluted with malformed lines and loaded by a fresh host (same addresses, same priority order, no abort). Sampling over pinsets, rotation histories and peerstore contents.",
        "Serialise/deserialise and peerstore clauses are round trips; only starting a peer on a snapshot and the snapshot written at shutdown depend on the simulated system (DESIGN.md §6 C14 says so). Pins with origins are excluded (known finding of C01).",
        "DESIGN.md §6 C14", "raftsim"),
    chk("C17", "exploration",
        "Whole cluster peers (real Cluster + real consensus/raft + hashicorp/raft + BoltDB on tmpfs + pstoremgr + gorpc + DHT on mocknet) go through generated membership histories: bootstrap of 1..4 peers, Join / PeerAdd of staging peers through leaders and followers, PeerRemove of leader / follower / self / absent peers, leave on shutdown, graceful restart, crash + restart on a copy of the folders, partitions, interleaved with (partly overlapping) Pin/Unpin. Oracles: after every successful change, with every link up, all remaining members report the same peerset and it is the one the acknowledged changes lead to (failed calls are resolved by what the members report); add of a present / removal of an absent peer changes nothing and does not fail; the last peer cannot be removed; a joiner lists, when Join returns and at the instant its Ready channel closes, every pin acknowledged before its addition began (register model with overlapping and unacknowledged writes); a ready, connected peer that learns of its removal stops itself within the watch interval plus the shutdown bound and its Raft folder is gone; with re-pinning every pin it held keeps its minimum number of holders among those who stay; Shutdown always returns; a peer that gives up on consensus ends up shut down; after the last fault everything converges and a fresh pin goes through. A panic on a goroutine of the code under test is a violation (process crash). Sampling, not proof.",
        "Tracker, IPFS connector, informer and the monitor transport are models (the monitor keeps a valid metric for every slot and filters by the peer's own consensus peerset). Stream close follows yamux/mplex rather than mocknet (simkit/lenient.go, DESIGN.md §5). The stop-and-clean clause is judged only for peers that were ready, connected and actually received their removal (Raft sends it once, best effort). Once hashicorp/raft's snapshot-install loop has been seen in a plan, termination, progress and agreement are not judged in it and the final waits are not waited out. A plan that uses more real time than its budget on the machine at hand is ended at a step boundary and reported as abandoned in the evidence, not as trouble (DESIGN 0.3 F26).",
        "DESIGN.md §6 C17", "membersim"),
    chk("C18", "exploration",
        "A binary built with the race detector runs one of five worlds around the structures the statement names (pin tracker + operation table; metrics store, checker and pubsub monitor; a whole Cluster facade with the real disk and numpin informers; the informers alone; the CRDT component with its batching queue) while 2-5 caller goroutines execute plan-given sequences of public calls that mostly land in the same instants, and in most plans one caller shuts the component down while the others go on. Violations: a race report, a panic on a goroutine of the code under test, a Shutdown or a caller stuck for minutes of simulated time, an empty or duplicated entry in a returned status / metric / alert / pinset list. The race detector judges by happens-before over the executed accesses, so a report does not depend on the interleaving that happened to run; which accesses execute is decided by the seeded plan. One plan per process (a plan runs exactly as its replay does). Sampling, not proof.",
        "Consensus, monitor, tracker and IPFS behind the Cluster facade are internally locked models; races wholly inside the harness are machinery trouble (exit 2), not violations. The Shutdown deadlocks of the Cluster found by the C17 world are listed under C17.",
        "DESIGN.md §6 C18", "racesim"),
    chk("C16", "exploration",
        "The real ipfshttp connector talks to a scripted in-memory IPFS HTTP daemon (installed as http.DefaultTransport) under the fake clock; the plan scripts the behaviour of every HTTP request of the pin-ls / swarm-connect / pin-update / pin-add-with-progress / pin-rm conversation (success, IPFS error body, non-JSON error, transport error, no answer, garbage, progress at chosen gaps then final object / stall / connection drop / X-Stream-Error trailer) for every pin kind and prior daemon state, the first call of each plan being drawn systematically from that product. Oracle: nil implies the daemon's pin table holds (or lacks) the CID in the asked mode at return; failed essential requests surface as errors; nothing is requested when already pinned as asked; unpin of an absent CID succeeds; a stalled pin is abandoned within 2 x PinTimeout + 1 s of the last progress; pin/update only with a recursively pinned source, with unpin=false. Sampling with a systematic component, not proof.",
        "The daemon is a model (go-ipfs error strings and go-ipfs-cmds trailer semantics as read from the vendored sources); a pin/add takes effect with its final stream object unless cancelled; a never-answering pin/update is not generated (the statement lists no such behaviour; the connector has no timeout there).",
        "DESIGN.md §6 C16", "ipfshttpsim"),
]

NA = {
    "C08": "pure function of its input (codec round trips / decoder totality): no schedule, clock, fault or second party to simulate; DESIGN.md §7",
    "C11": "request -> (status, cluster operation) is a pure function of request and configuration; no timing or fault clause; DESIGN.md §7",
    "C12": "same shape as C11 (proxy routing is a pure function of the request); DESIGN.md §7",
    "C15": "pure function of the configuration value; DESIGN.md §7",
}
PENDING = "harness not built yet in this session (planned, see DESIGN.md §12); not claimed until its check exists"
ALL = ["C%02d" % i for i in range(1, 19)]

def main():
    claimed = {c["property_id"] for c in CHECKS}
    na = []
    for p in ALL:
        if p in claimed:
            continue
        na.append({"property_id": p, "reason": NA.get(p, PENDING)})
    m = {
        "version": 1,
        "setup_cmd": "cd /verif && python3 simrt/gen.py >/dev/null && GOFLAGS=-mod=mod GOPROXY=off GOSUMDB=off GOTOOLCHAIN=local /opt/veriftools/go1.26.8/bin/go build -o bin/vcheck ./cmd/vcheck && ./bin/vcheck setup",
        "hooks": {
            "guard": "verif",
            "enable": "none needed: every seam is an existing interface or configuration value; harnesses are built from /repo's working tree through a replace directive (go1.26.8, -overlay simrt/gen/overlay.json)",
            "baseline_off_cmd": "cd /repo && GOPROXY=off GOSUMDB=off go test -mod=mod -json -vet=off -count=1 -timeout 25m ./...",
            "source_commits": [],
            "add_only": True,
        },
        "engines": [
            {"name": "clustersim", "path": "/verif/harness/clustersim", "serves_properties": ["C03", "C04", "C06", "C07", "C09", "C10"], "kind_free_text": "real ipfscluster.Cluster + real allocators on mocknet against model consensus/monitor/tracker/IPFS"},
            {"name": "ipfshttpsim", "path": "/verif/harness/ipfshttpsim", "serves_properties": ["C16"], "kind_free_text": "real ipfshttp.Connector against a scripted in-memory HTTP daemon (http.DefaultTransport) under the fake clock"},
            {"name": "raftsim", "path": "/verif/harness/raftsim", "serves_properties": ["C01", "C14"], "kind_free_text": "real consensus/raft + go-libp2p-raft + hashicorp/raft + BoltDB on mocknet with tmpfs data folders, kill/restart, recording datastore"},
            {"name": "crdtsim", "path": "/verif/harness/crdtsim", "serves_properties": ["C02", "C07"], "kind_free_text": "real consensus/crdt + go-ds-crdt + ipfs-lite + gossipsub + DHT on mocknet, fault-injecting datastore"},
            {"name": "addersim", "path": "/verif/harness/addersim", "serves_properties": ["C13"], "kind_free_text": "real adder + ipfsadd + single/sharding DAG services + BlockAdder over gorpc on mocknet against recording Cluster/IPFSConnector services with per-(block,destination) faults"},
            {"name": "membersim", "path": "/verif/harness/membersim", "serves_properties": ["C17"], "kind_free_text": "whole cluster peers: real ipfscluster.Cluster on real consensus/raft (hashicorp/raft, BoltDB on tmpfs), pstoremgr, DHT and gorpc on mocknet; membership histories with crash/restart/partition"},
            {"name": "racesim", "path": "/verif/harness/racesim", "serves_properties": ["C18"], "kind_free_text": "race-detector build: concurrent callers on tracker, metrics store/checker/pubsub monitor, Cluster facade with real informers, CRDT batching, under the fake clock"},
            {"name": "monsim", "path": "/verif/harness/monsim", "serves_properties": ["C09"], "kind_free_text": "real metrics Store/Window/Checker and pubsubmon over gossipsub on mocknet under the fake clock"},
            {"name": "trackersim", "path": "/verif/harness/trackersim", "serves_properties": ["C05", "C06"], "kind_free_text": "real stateless tracker + optracker in a synctest bubble against model pinset and model IPFS daemon"},
        ],
        "checks": CHECKS,
        "not_applicable": na,
        "notes": "All checks are driven by /verif/bin/vcheck (cmd/vcheck). Exit 0 = held (KNOWN-FINDING lines allowed), 1 = VIOLATION with replay file, 2 = machinery trouble. Known findings: /verif/known_findings.jsonl.",
    }
    with open(os.path.join(HERE, "MANIFEST.json"), "w") as f:
        json.dump(m, f, indent=1)
        f.write("\n")
    try:
        import jsonschema
        jsonschema.validate(m, json.load(open("/root/.vp/MANIFEST.schema.json")))
        print("MANIFEST.json valid")
    except ImportError:
        print("MANIFEST.json written (jsonschema not importable here; run with python3-vt)")

if __name__ == "__main__":
    main()
