#!/usr/bin/env python3
import json, sys, glob, jsonschema
ms = json.load(open("/root/.vp/MANIFEST.schema.json")); es = json.load(open("/root/.vp/EVIDENCE.schema.json"))
m = json.load(open("/verif/MANIFEST.json")); jsonschema.validate(m, ms); print("manifest ok")
for c in m["checks"]:
    try:
        e = json.load(open(c["evidence_file"])); jsonschema.validate(e, es)
        assert e["level"] == c["level_claimed"]["category"], "level mismatch"
        print(c["property_id"], "evidence ok", e["coverage"]["evaluations"], e["coverage"]["distinct_nontrivial"])
    except Exception as ex:
        print(c["property_id"], "EVIDENCE PROBLEM:", str(ex)[:300])
