#!/usr/bin/env python3
import json,sys
r=json.load(open(sys.argv[1]))
p=r['plan']
print("knobs",p.get('knobs'),"scenario",p.get('scenario'),"rtseed",p.get('rtseed'))
for s in p['steps']: print("  ",json.dumps(s))
print(r['shrink'])
print(r.get('trace','')[:int(sys.argv[2]) if len(sys.argv)>2 else 6000])
print("EXPECTED:",r['expected']['clause'],r['expected']['detail'][:1500])
