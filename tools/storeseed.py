#!/usr/bin/env python3
# usage: storeseed.py <prop> <m-dir-name> <new-name> <detection> <detected_as> [note]
# copies /tmp/wt-out/<prop>/<m> into /verif/seeded/<prop>-<new-name> and records the detection result
import json, os, shutil, sys
prop, m, new, det, as_ = sys.argv[1:6]
note = sys.argv[6] if len(sys.argv) > 6 else ""
src = f"/tmp/wt-out/{prop}/{m}"
dst = f"/verif/seeded/{prop}-{new}"
os.makedirs(dst, exist_ok=True)
for f in os.listdir(src):
    if os.path.isfile(os.path.join(src, f)):
        shutil.copy(os.path.join(src, f), dst)
meta = json.load(open(dst + "/meta.json"))
meta["breaks_property"] = prop
meta["confirmed_by_me"] = f"re-ran the agent's run.sh in a clean scratch worktree (/tmp/wt/{prop}): demonstration passes on the clean tree and fails with patch.diff (see confirm.log)"
meta["checked_with"] = f"git -C /repo apply patch.diff; ./bin/vcheck {prop} --tier quick; git -C /repo checkout -- ."
meta["detection"] = det
meta["detected_as"] = as_
if note:
    meta["note"] = note
json.dump(meta, open(dst + "/meta.json", "w"), indent=1)
print("stored", dst)
