#!/bin/bash
# usage: tryseed.sh <property> <patch.diff> [budget_s]  -- applies a seeded change to /repo, runs the quick check, reverts
set -u
P=$1; PATCH=$2; B=${3:-}
cd /repo || exit 2
if ! git diff --quiet; then echo "repo dirty"; exit 2; fi
git apply "$PATCH" || { echo "patch does not apply"; exit 2; }
cd /verif
if [ -n "$B" ]; then export VERIF_BUDGET_S=$B; fi
./bin/vcheck "$P" --tier quick > /tmp/tryseed.$P.out 2>&1
rc=$?
git -C /repo checkout -- .
git -C /repo clean -fdq
echo "exit=$rc"; grep -E "^VIOLATION|clause=|^C[0-9]+ quick|TROUBLE" /tmp/tryseed.$P.out | cut -c1-300 | head -12
exit $rc
