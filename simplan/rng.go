package simplan

// Rng is the only source of choices in plan generation. It is splitmix64, so a
// plan is a pure function of the seed and of this file.
type Rng struct{ s uint64 }

func NewRng(seed uint64) *Rng { return &Rng{s: seed*0x9E3779B97F4A7C15 + 0x1234567} }

func Mix64(x uint64) uint64 {
	x += 0x9E3779B97F4A7C15
	x ^= x >> 30
	x *= 0xBF58476D1CE4E5B9
	x ^= x >> 27
	x *= 0x94D049BB133111EB
	x ^= x >> 31
	return x
}

func (r *Rng) Uint64() uint64 {
	r.s += 0x9E3779B97F4A7C15
	x := r.s
	x ^= x >> 30
	x *= 0xBF58476D1CE4E5B9
	x ^= x >> 27
	x *= 0x94D049BB133111EB
	x ^= x >> 31
	return x
}

// Intn returns a value in [0,n). n<=0 yields 0.
func (r *Rng) Intn(n int) int {
	if n <= 0 {
		return 0
	}
	return int(r.Uint64() % uint64(n))
}

// Range returns a value in [lo,hi].
func (r *Rng) Range(lo, hi int) int {
	if hi <= lo {
		return lo
	}
	return lo + r.Intn(hi-lo+1)
}

func (r *Rng) Float() float64 { return float64(r.Uint64()>>11) / float64(1<<53) }

func (r *Rng) Chance(p float64) bool { return r.Float() < p }

func (r *Rng) Bool() bool { return r.Uint64()&1 == 1 }

// Pick returns an index weighted by w.
func (r *Rng) Pick(w ...int) int {
	t := 0
	for _, x := range w {
		t += x
	}
	if t <= 0 {
		return 0
	}
	k := r.Intn(t)
	for i, x := range w {
		if k < x {
			return i
		}
		k -= x
	}
	return len(w) - 1
}

// Perm returns a permutation of 0..n-1.
func (r *Rng) Perm(n int) []int {
	p := make([]int, n)
	for i := range p {
		p[i] = i
	}
	for i := n - 1; i > 0; i-- {
		j := r.Intn(i + 1)
		p[i], p[j] = p[j], p[i]
	}
	return p
}

// Read fills b (io.Reader), for key generation and crypto/rand replacement.
func (r *Rng) Read(b []byte) (int, error) {
	for i := 0; i < len(b); i += 8 {
		v := r.Uint64()
		for j := 0; j < 8 && i+j < len(b); j++ {
			b[i+j] = byte(v >> (8 * uint(j)))
		}
	}
	return len(b), nil
}

// Fork derives an independent stream.
func (r *Rng) Fork() *Rng { return &Rng{s: Mix64(r.Uint64())} }
