package simplan

import (
	"crypto/sha256"
	"encoding/hex"
	"encoding/json"
)

// Plan is the replayable description of one simulated run. It is generated
// outside the bubble as a pure function of (property, tier, seed); executing
// it draws no further randomness except through RTSeed (runtime tie-breaks).
type Plan struct {
	Property string            `json:"property"`
	Harness  string            `json:"harness"`
	Scenario string            `json:"scenario,omitempty"`
	Seed     uint64            `json:"seed"`
	RTSeed   uint64            `json:"rtseed"`
	Knobs    map[string]int64  `json:"knobs,omitempty"`
	SKnobs   map[string]string `json:"sknobs,omitempty"`
	Steps    []json.RawMessage `json:"steps"`
}

func (p *Plan) Knob(name string, def int64) int64 {
	if v, ok := p.Knobs[name]; ok {
		return v
	}
	return def
}

func (p *Plan) SetKnob(name string, v int64) {
	if p.Knobs == nil {
		p.Knobs = map[string]int64{}
	}
	p.Knobs[name] = v
}

func (p *Plan) AddStep(s interface{}) {
	b, err := json.Marshal(s)
	if err != nil {
		panic(err)
	}
	p.Steps = append(p.Steps, b)
}

func (p *Plan) Digest() string {
	b, _ := json.Marshal(p)
	h := sha256.Sum256(b)
	return hex.EncodeToString(h[:8])
}

// Violation names the clause of the property that failed and carries a witness.
type Violation struct {
	Clause    string `json:"clause"`
	Detail    string `json:"detail"`
	Signature string `json:"signature,omitempty"` // normalised witness used to match known findings
}

// Result is one JSON line per executed plan.
type Result struct {
	Property    string `json:"property"`
	Seed        uint64 `json:"seed"`
	PlanDigest  string `json:"plan_digest"`
	TraceDigest string `json:"trace_digest"`
	CoarseSig   string `json:"coarse_sig,omitempty"`
	Verdict     string `json:"verdict"` // ok | violation | error | abandoned
	// Abandoned: the plan used up its real-time budget and was ended at a step
	// boundary (what the oracles had recorded by then stands, so the verdict can
	// still be "violation"); where it ended depends on the machine.
	Abandoned  string         `json:"abandoned,omitempty"`
	Violations []Violation    `json:"violations,omitempty"`
	Error      string         `json:"error,omitempty"`
	SimTimeMs  int64          `json:"sim_ms"`
	WallMs     int64          `json:"wall_ms"`
	Ops        int            `json:"ops"`
	Steps      int            `json:"steps"`
	Faults     map[string]int `json:"faults,omitempty"`
	Probes     map[string]int `json:"probes,omitempty"`
	Nontrivial bool           `json:"nontrivial"`
	Events     int            `json:"events"`
	// SchedDigest hashes the order in which the Go scheduler ran goroutines during
	// the plan (goroutine ids are assigned in creation order, which is itself part
	// of the schedule); SchedSteps is the number of scheduling decisions.
	SchedDigest string `json:"sched_digest,omitempty"`
	SchedSteps  uint64 `json:"sched_steps,omitempty"`
}
