// Package libp2pquic is a build stub used only by the /verif harness module.
// The real go-libp2p-quic-transport v0.11.1 depends on quic-go v0.21.1, which
// refuses to compile on Go >= 1.18. ipfs-cluster's root package only takes the
// address of NewTransport (var _ = libp2pquic.NewTransport) and api/rest lists
// it as one optional libp2p transport; no simulated component dials QUIC.
package libp2pquic

import (
	"errors"

	"github.com/libp2p/go-libp2p-core/connmgr"
	ic "github.com/libp2p/go-libp2p-core/crypto"
	"github.com/libp2p/go-libp2p-core/pnet"
	tpt "github.com/libp2p/go-libp2p-core/transport"
)

// NewTransport always fails: QUIC is not available in the simulation build.
func NewTransport(key ic.PrivKey, psk pnet.PSK, gater connmgr.ConnectionGater) (tpt.Transport, error) {
	return nil, errors.New("libp2pquic stub: QUIC is not available in the verification build")
}
