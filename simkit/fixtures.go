package simkit

import (
	"fmt"

	cid "github.com/ipfs/go-cid"
	crypto "github.com/libp2p/go-libp2p-core/crypto"
	peer "github.com/libp2p/go-libp2p-core/peer"
	mh "github.com/multiformats/go-multihash"
)

// TestCid returns the i-th CID of the small universe. Even indices are CIDv1
// (raw / dag-pb alternating), odd ones CIDv0, so both versions are exercised.
func TestCid(i int) cid.Cid {
	h, err := mh.Sum([]byte(fmt.Sprintf("verif-cid-%d", i)), mh.SHA2_256, -1)
	if err != nil {
		panic(err)
	}
	switch i % 4 {
	case 1, 3:
		return cid.NewCidV0(h)
	case 2:
		return cid.NewCidV1(cid.DagProtobuf, h)
	default:
		return cid.NewCidV1(cid.Raw, h)
	}
}

// TestKey returns a deterministic ed25519 key pair and its peer ID.
func TestKey(i int) (crypto.PrivKey, peer.ID) {
	r := NewRng(uint64(0xC0FFEE + i))
	priv, pub, err := crypto.GenerateEd25519Key(r)
	if err != nil {
		panic(err)
	}
	pid, err := peer.IDFromPublicKey(pub)
	if err != nil {
		panic(err)
	}
	return priv, pid
}

// TestPeer returns the i-th deterministic peer ID.
func TestPeer(i int) peer.ID {
	_, p := TestKey(i)
	return p
}
