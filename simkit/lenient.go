package simkit

import (
	"context"
	"errors"
	"sync"

	"github.com/libp2p/go-libp2p-core/host"
	"github.com/libp2p/go-libp2p-core/network"
	peer "github.com/libp2p/go-libp2p-core/peer"
	"github.com/libp2p/go-libp2p-core/protocol"
)

// Mocknet closes the read half of a stream by closing the pipe under it with
// an error, so the remote side's next write FAILS. The stream multiplexers
// used in deployments (yamux, mplex) do not do that: once a side has closed a
// stream, data the other side still writes is accepted and silently discarded.
// The difference matters to code that writes a last message and closes at
// once (hashicorp/raft's pipeline does when a server is removed): under
// mocknet's rule the receiver's reply to the previous message fails, it
// abandons the connection and never reads the last message. lenientHost
// restores the deployed behaviour: CloseRead/Close never break the remote
// writer; what arrives afterwards is drained and dropped.
type lenientHost struct {
	host.Host
}

func (h *lenientHost) NewStream(ctx context.Context, p peer.ID, pids ...protocol.ID) (network.Stream, error) {
	s, err := h.Host.NewStream(ctx, p, pids...)
	if err != nil {
		return nil, err
	}
	return newLenientStream(s), nil
}

func (h *lenientHost) SetStreamHandler(pid protocol.ID, handler network.StreamHandler) {
	h.Host.SetStreamHandler(pid, func(s network.Stream) { handler(newLenientStream(s)) })
}

func (h *lenientHost) SetStreamHandlerMatch(pid protocol.ID, m func(string) bool, handler network.StreamHandler) {
	h.Host.SetStreamHandlerMatch(pid, m, func(s network.Stream) { handler(newLenientStream(s)) })
}

var errReadClosed = errors.New("stream closed for reading")

type lenientStream struct {
	network.Stream
	once    sync.Once
	rclosed chan struct{}
	data    chan []byte
	rmu     sync.Mutex
	cur     []byte
	perr    error
}

func newLenientStream(s network.Stream) *lenientStream {
	if l, ok := s.(*lenientStream); ok {
		return l
	}
	l := &lenientStream{Stream: s, rclosed: make(chan struct{}), data: make(chan []byte)}
	go l.pump()
	return l
}

func (s *lenientStream) pump() {
	for {
		buf := make([]byte, 4096)
		n, err := s.Stream.Read(buf)
		if n > 0 {
			select {
			case s.data <- buf[:n]:
			case <-s.rclosed: // nobody reads any more: drop
			}
		}
		if err != nil {
			s.perr = err
			close(s.data)
			return
		}
	}
}

func (s *lenientStream) Read(p []byte) (int, error) {
	s.rmu.Lock()
	defer s.rmu.Unlock()
	if len(s.cur) == 0 {
		select {
		case <-s.rclosed:
			return 0, errReadClosed
		default:
		}
		select {
		case b, ok := <-s.data:
			if !ok {
				return 0, s.perr
			}
			s.cur = b
		case <-s.rclosed:
			return 0, errReadClosed
		}
	}
	n := copy(p, s.cur)
	s.cur = s.cur[n:]
	return n, nil
}

func (s *lenientStream) CloseRead() error {
	s.once.Do(func() { close(s.rclosed) })
	return nil
}

func (s *lenientStream) Close() error {
	s.CloseRead()
	return s.Stream.CloseWrite()
}

func (s *lenientStream) Reset() error {
	s.once.Do(func() { close(s.rclosed) })
	return s.Stream.Reset()
}
