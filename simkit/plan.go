package simkit

import (
	"crypto/sha256"
	"encoding/hex"
	"fmt"
	"os"
	"runtime"
	"sort"
	"strings"
	"sync"
	"time"

	"verif/simplan"
)

type (
	Plan      = simplan.Plan
	Result    = simplan.Result
	Violation = simplan.Violation
	Rng       = simplan.Rng
)

func NewRng(seed uint64) *Rng { return simplan.NewRng(seed) }

var debugCounters = os.Getenv("VERIF_DEBUG_CTR") != ""

// VERIF_DEBUG_LIVE=1 (debugging aid): print every trace event as it is recorded
// (a plan that never ends has no trace to print at its end).
var debugLive = os.Getenv("VERIF_DEBUG_LIVE") != ""

// Event is one simulator-visible event.
type Event struct {
	Seq  int    `json:"seq"`
	AtMs int64  `json:"at_ms"`
	Who  string `json:"who"`
	Kind string `json:"kind"`
	Data string `json:"data,omitempty"`
}

// Run collects the trace, counters and violations of one plan execution.
type Run struct {
	Plan  *Plan
	start time.Time

	mu         sync.Mutex
	seq        int
	events     []Event
	faults     map[string]int
	probes     map[string]int
	violations []Violation
	ops        int
	steps      int
	KeepTrace  bool
	// NoFaultDimension: plans of this harness/property are non-trivial without a fired fault.
	NoFaultDimension bool

	// wall budget of the plan (real time, see WallOver); zero = none
	wall0      int64
	wallBudget time.Duration
	abandoned  string
}

func NewRun(p *Plan) *Run {
	return &Run{Plan: p, faults: map[string]int{}, probes: map[string]int{}}
}

// Begin must be called inside the bubble before anything else.
func (r *Run) Begin() { r.start = time.Now() }

// NowMs is the simulated time since Begin.
func (r *Run) NowMs() int64 {
	if r.start.IsZero() {
		return 0
	}
	return int64(time.Since(r.start) / time.Millisecond)
}

// Ev records an event and returns its global sequence number.
func (r *Run) Ev(who, kind, format string, a ...interface{}) int {
	d := format
	if len(a) > 0 {
		d = fmt.Sprintf(format, a...)
	}
	at := r.NowMs()
	if debugCounters {
		a, b := RuntimeCounters()
		d += fmt.Sprintf(" [rt %d/%d g=%d]", a, b, runtime.NumGoroutine())
	}
	r.mu.Lock()
	r.seq++
	s := r.seq
	r.events = append(r.events, Event{Seq: s, AtMs: at, Who: who, Kind: kind, Data: d})
	r.mu.Unlock()
	if debugLive {
		fmt.Fprintf(os.Stderr, "#%d %dms %s %s %s\n", s, at, who, kind, d)
	}
	return s
}

// Stamp returns a fresh global sequence number without recording an event.
func (r *Run) Stamp() int {
	r.mu.Lock()
	r.seq++
	s := r.seq
	r.mu.Unlock()
	return s
}

func (r *Run) Fault(kind string) {
	r.mu.Lock()
	r.faults[kind]++
	r.mu.Unlock()
}

func (r *Run) Probe(name string) {
	r.mu.Lock()
	r.probes[name]++
	r.mu.Unlock()
}

func (r *Run) ProbeN(name string, n int) {
	r.mu.Lock()
	r.probes[name] += n
	r.mu.Unlock()
}

func (r *Run) Op()   { r.mu.Lock(); r.ops++; r.mu.Unlock() }
func (r *Run) Step() { r.mu.Lock(); r.steps++; r.mu.Unlock() }

// Violate records a violation. sig is the normalised witness (may be empty).
func (r *Run) Violate(clause, sig, format string, a ...interface{}) {
	d := format
	if len(a) > 0 {
		d = fmt.Sprintf(format, a...)
	}
	if len(d) > 4000 {
		d = d[:4000] + "…"
	}
	r.mu.Lock()
	for _, v := range r.violations {
		if v.Clause == clause && v.Signature == sig {
			r.mu.Unlock()
			return
		}
	}
	r.mu.Unlock()
	r.Ev("oracle", "violation", "%s: %s", clause, d)
	r.mu.Lock()
	if len(r.violations) < 50 {
		r.violations = append(r.violations, Violation{Clause: clause, Detail: d, Signature: sig})
	}
	r.mu.Unlock()
}

func (r *Run) Violated() bool {
	r.mu.Lock()
	defer r.mu.Unlock()
	return len(r.violations) > 0
}

// SetWallBudget starts the plan's real-time budget (called outside the bubble by
// ExecPlan; d = 0 switches it off, as in replays and single-plan runs).
func (r *Run) SetWallBudget(d time.Duration) {
	r.wall0 = rtNanotime()
	r.wallBudget = d
}

// WallOver reports whether the plan has used up its real-time budget. It is a
// statement about the machine (how loaded it is, how expensive this plan is),
// never about the system under test.
func (r *Run) WallOver() bool {
	return r.wallBudget > 0 && time.Duration(rtNanotime()-r.wall0) > r.wallBudget
}

// AbandonIfWallOver ends the plan where it stands once its real-time budget is
// used up. Only the plan's root goroutine may call it (at step boundaries and in
// its waiting loops). What the oracles recorded up to here stands; end-of-plan
// clauses are not evaluated and the plan is reported with verdict "abandoned"
// (counted in the evidence, neither a pass nor an alarm). A worker that does not
// even get here is still killed by the driver's watchdog (exit 2).
func (r *Run) AbandonIfWallOver() {
	if !r.WallOver() {
		return
	}
	r.mu.Lock()
	r.abandoned = fmt.Sprintf("wall budget of %s used up at simulated %d ms", r.wallBudget, r.NowMs())
	why := r.abandoned
	r.mu.Unlock()
	panic(EndPlan{Why: why})
}

// Events returns a copy of the raw trace.
func (r *Run) Events() []Event {
	r.mu.Lock()
	defer r.mu.Unlock()
	out := make([]Event, len(r.events))
	copy(out, r.events)
	return out
}

// canonical sorts events inside one simulated instant by (who, kind, data):
// their relative order in the log is logging order, not semantics.
func canonical(ev []Event) []Event {
	out := make([]Event, len(ev))
	copy(out, ev)
	sort.SliceStable(out, func(i, j int) bool {
		a, b := out[i], out[j]
		if a.AtMs != b.AtMs {
			return a.AtMs < b.AtMs
		}
		if a.Who != b.Who {
			return a.Who < b.Who
		}
		if a.Kind != b.Kind {
			return a.Kind < b.Kind
		}
		return a.Data < b.Data
	})
	return out
}

// Finish builds the result line.
func (r *Run) Finish(wall time.Duration) *Result {
	r.mu.Lock()
	defer r.mu.Unlock()
	can := canonical(r.events)
	h := sha256.New()
	hc := sha256.New()
	for _, e := range can {
		fmt.Fprintf(h, "%d|%s|%s|%s\n", e.AtMs, e.Who, e.Kind, e.Data)
		// the coarse signature ignores time and payload: it names the *shape*
		// of the history (who did what kind of thing in which order).
		fmt.Fprintf(hc, "%s|%s\n", e.Who, e.Kind)
	}
	res := &Result{
		Property:    r.Plan.Property,
		Seed:        r.Plan.Seed,
		PlanDigest:  r.Plan.Digest(),
		TraceDigest: hex.EncodeToString(h.Sum(nil)[:8]),
		CoarseSig:   hex.EncodeToString(hc.Sum(nil)[:6]),
		Verdict:     "ok",
		SimTimeMs:   0,
		WallMs:      int64(wall / time.Millisecond),
		Ops:         r.ops,
		Steps:       r.steps,
		Faults:      r.faults,
		Probes:      r.probes,
		Events:      len(r.events),
	}
	if len(can) > 0 {
		res.SimTimeMs = can[len(can)-1].AtMs
	}
	nf := 0
	for _, v := range r.faults {
		nf += v
	}
	res.Nontrivial = r.ops >= 1 && (nf >= 1 || r.NoFaultDimension)
	if r.abandoned != "" {
		res.Verdict = "abandoned"
		res.Abandoned = r.abandoned
	}
	if len(r.violations) > 0 {
		res.Verdict = "violation"
		res.Violations = r.violations
	}
	return res
}

// TraceText renders the canonical trace for replay files and -v output.
func (r *Run) TraceText() string {
	r.mu.Lock()
	defer r.mu.Unlock()
	var sb strings.Builder
	// recording order (the digest uses the canonical per-instant order)
	for _, e := range r.events {
		fmt.Fprintf(&sb, "#%-4d %8dms %-10s %-14s %s\n", e.Seq, e.AtMs, e.Who, e.Kind, e.Data)
	}
	return sb.String()
}

// SortedKeys is used wherever a map must be walked deterministically.
func SortedKeys[V any](m map[string]V) []string {
	ks := make([]string, 0, len(m))
	for k := range m {
		ks = append(ks, k)
	}
	sort.Strings(ks)
	return ks
}

// EndPlan is the value a harness panics with, on the plan's root goroutine, to end
// a plan where it stands: everything recorded so far is the plan's result.
type EndPlan struct{ Why string }
