package simkit

import (
	"runtime"
	"strings"
	"sync"

	ds "github.com/ipfs/go-datastore"
	dsq "github.com/ipfs/go-datastore/query"
)

// RestoreCountingDS wraps the datastore handed to a consensus component and
// counts snapshot restores (dsstate.State.Unmarshal on the call stack) that
// follow one another with no ordinary write in between. hashicorp/raft v1.1.1
// can send a follower the same snapshot for ever (see DESIGN 0.5); a harness
// reads Consecutive() to tell that situation from a defect of ipfs-cluster.
type RestoreCountingDS struct {
	ds.Datastore
	mu          sync.Mutex
	consecutive int
	total       int
}

func NewRestoreCountingDS(inner ds.Datastore) *RestoreCountingDS {
	return &RestoreCountingDS{Datastore: inner}
}

func inUnmarshal() bool {
	pc := make([]uintptr, 24)
	n := runtime.Callers(3, pc)
	fr := runtime.CallersFrames(pc[:n])
	for {
		f, more := fr.Next()
		if strings.HasSuffix(f.Function, "dsstate.(*State).Unmarshal") {
			return true
		}
		if !more {
			return false
		}
	}
}

func (d *RestoreCountingDS) Put(k ds.Key, v []byte) error {
	if !inUnmarshal() {
		d.mu.Lock()
		d.consecutive = 0
		d.mu.Unlock()
	}
	return d.Datastore.Put(k, v)
}

func (d *RestoreCountingDS) Delete(k ds.Key) error {
	if !inUnmarshal() {
		d.mu.Lock()
		d.consecutive = 0
		d.mu.Unlock()
	}
	return d.Datastore.Delete(k)
}

func (d *RestoreCountingDS) Query(q dsq.Query) (dsq.Results, error) {
	if inUnmarshal() { // a restore begins by listing what is there
		d.mu.Lock()
		d.consecutive++
		d.total++
		d.mu.Unlock()
	}
	return d.Datastore.Query(q)
}

// Consecutive is the number of restores since the last ordinary write.
func (d *RestoreCountingDS) Consecutive() int {
	d.mu.Lock()
	defer d.mu.Unlock()
	return d.consecutive
}
