package simkit

import (
	"context"
	"fmt"
	"time"

	"github.com/libp2p/go-libp2p-core/host"
	peer "github.com/libp2p/go-libp2p-core/peer"
	mocknet "github.com/libp2p/go-libp2p/p2p/net/mock"
	ma "github.com/multiformats/go-multiaddr"
)

// Net is the simulated network: libp2p's mocknet (real basic host, in-memory
// links) with the fault vocabulary of DESIGN §3.5. Everything here must be
// created inside the bubble.
type Net struct {
	run    *Run
	ctx    context.Context
	cancel context.CancelFunc
	MN     mocknet.Mocknet
	ids    map[int]peer.ID
	hosts  map[int]host.Host
	cut    map[[2]int]bool // pairs currently partitioned
	dead   map[int]bool    // killed peers: never linked again until AddPeer creates the successor
	defLat time.Duration
	// LenientClose: hosts handed out behave like yamux/mplex on stream close (see lenient.go)
	LenientClose bool
}

func NewNet(run *Run, latency time.Duration) *Net {
	ctx, cancel := context.WithCancel(context.Background())
	mn := mocknet.New(ctx)
	mn.SetLinkDefaults(mocknet.LinkOptions{Latency: latency})
	return &Net{run: run, ctx: ctx, cancel: cancel, MN: mn, ids: map[int]peer.ID{}, hosts: map[int]host.Host{}, cut: map[[2]int]bool{}, dead: map[int]bool{}, defLat: latency}
}

// Close cancels the mocknet context (there is no Mocknet.Close).
func (n *Net) Close() { n.cancel() }

func (n *Net) Ctx() context.Context { return n.ctx }

// AddPeer creates (or, for an existing index, replaces: crash-restart) peer i
// and links it to every other peer that it is not partitioned from.
func (n *Net) AddPeer(i int) host.Host {
	priv, pid := TestKey(i)
	addr, err := ma.NewMultiaddr(fmt.Sprintf("/ip4/10.0.%d.%d/tcp/9096", i/250, 1+i%250))
	if err != nil {
		panic(err)
	}
	if _, replacing := n.ids[i]; replacing {
		for j, q := range n.ids {
			if j != i {
				n.MN.UnlinkPeers(pid, q) // links hold the old incarnation's network object
				n.MN.DisconnectPeers(pid, q)
			}
		}
	}
	h, err := n.MN.AddPeer(priv, addr)
	if err != nil {
		panic(err)
	}
	if n.LenientClose {
		h = &lenientHost{Host: h}
	}
	n.ids[i] = pid
	n.hosts[i] = h
	delete(n.dead, i)
	for j := range n.ids {
		if j != i && !n.cut[pair(i, j)] && !n.dead[j] {
			if _, err := n.MN.LinkPeers(pid, n.ids[j]); err != nil {
				panic(err)
			}
		}
	}
	return h
}

func pair(a, b int) [2]int {
	if a > b {
		a, b = b, a
	}
	return [2]int{a, b}
}

func (n *Net) ID(i int) peer.ID     { return n.ids[i] }
func (n *Net) Host(i int) host.Host { return n.hosts[i] }

// Index returns the index of a peer ID, or -1.
func (n *Net) Index(p peer.ID) int {
	for i, q := range n.ids {
		if q == p {
			return i
		}
	}
	return -1
}

// Connect dials a<->b (no-op when partitioned).
func (n *Net) Connect(a, b int) error {
	if n.cut[pair(a, b)] || n.dead[a] || n.dead[b] {
		return fmt.Errorf("partitioned")
	}
	_, err := n.MN.ConnectPeers(n.ids[a], n.ids[b])
	return err
}

// ConnectAll dials every non-partitioned pair.
func (n *Net) ConnectAll() {
	ks := n.sortedIdx()
	for x, a := range ks {
		for _, b := range ks[x+1:] {
			n.Connect(a, b)
		}
	}
}

func (n *Net) sortedIdx() []int {
	var ks []int
	for i := 0; i < 64; i++ {
		if _, ok := n.ids[i]; ok {
			ks = append(ks, i)
		}
	}
	return ks
}

// SetLatency changes the latency of link a-b.
func (n *Net) SetLatency(a, b int, d time.Duration) {
	for _, l := range n.MN.LinksBetweenPeers(n.ids[a], n.ids[b]) {
		l.SetOptions(mocknet.LinkOptions{Latency: d})
	}
	n.run.Fault("latency_change")
}

// Cut partitions a from b: the link is removed and connections are closed.
func (n *Net) Cut(a, b int) {
	if a == b || n.cut[pair(a, b)] {
		return
	}
	n.cut[pair(a, b)] = true
	// the link goes first: closing a connection yields to other goroutines, and a
	// dial that ran between the two calls would leave a live connection across
	// the partition, on a link whose latency nothing can change any more
	n.MN.UnlinkPeers(n.ids[a], n.ids[b])
	n.MN.DisconnectPeers(n.ids[a], n.ids[b])
	// A dial that had already picked the link up when it was removed (possible
	// when lock acquisitions are scheduling points) registers its connection after
	// the sweep above: sweep again a simulated millisecond later, and once more
	// when the partition heals, so that nothing lives on the removed link.
	ia, ib := n.ids[a], n.ids[b]
	go func() {
		select {
		case <-time.After(time.Millisecond):
		case <-n.ctx.Done():
			return
		}
		if n.cut[pair(a, b)] && n.ids[a] == ia && n.ids[b] == ib {
			n.MN.DisconnectPeers(ia, ib)
		}
	}()
}

// Partition cuts every pair across the two groups.
func (n *Net) Partition(ga, gb []int) {
	for _, a := range ga {
		for _, b := range gb {
			n.Cut(a, b)
		}
	}
	n.run.Fault("partition")
	n.run.Ev("net", "partition", "%v | %v", ga, gb)
}

// Isolate cuts peer a from everyone.
func (n *Net) Isolate(a int) {
	for _, b := range n.sortedIdx() {
		n.Cut(a, b)
	}
}

// Heal restores every cut link and reconnects.
func (n *Net) Heal() {
	ks := n.sortedIdx()
	for x, a := range ks {
		for _, b := range ks[x+1:] {
			if n.cut[pair(a, b)] {
				delete(n.cut, pair(a, b))
				if n.dead[a] || n.dead[b] {
					continue
				}
				n.MN.DisconnectPeers(n.ids[a], n.ids[b]) // nothing survives on the removed link
				if _, err := n.MN.LinkPeers(n.ids[a], n.ids[b]); err == nil {
					n.MN.ConnectPeers(n.ids[a], n.ids[b])
				}
			}
		}
	}
	n.run.Fault("heal")
	n.run.Ev("net", "heal", "")
}

// HealPeer restores the links of one peer.
func (n *Net) HealPeer(a int) {
	for _, b := range n.sortedIdx() {
		if n.cut[pair(a, b)] {
			delete(n.cut, pair(a, b))
			if n.dead[a] || n.dead[b] {
				continue
			}
			n.MN.DisconnectPeers(n.ids[a], n.ids[b]) // nothing survives on the removed link
			if _, err := n.MN.LinkPeers(n.ids[a], n.ids[b]); err == nil {
				n.MN.ConnectPeers(n.ids[a], n.ids[b])
			}
		}
	}
}

// Kill removes peer a from the network for good: its links are cut and are
// not restored by Heal. Only AddPeer (the successor incarnation) brings the
// identity back. Mocknet finds links by peer ID, so a killed process must be
// fully stopped before its successor is added.
func (n *Net) Kill(a int) {
	n.Isolate(a)
	n.dead[a] = true
}

// Reset closes the connection a-b but keeps the link (streams die; both sides
// may redial).
func (n *Net) Reset(a, b int) {
	n.MN.DisconnectPeers(n.ids[a], n.ids[b])
	n.run.Fault("reset")
	n.run.Ev("net", "reset", "%d-%d", a, b)
}

// IsCut reports whether a and b are partitioned.
func (n *Net) IsCut(a, b int) bool { return n.cut[pair(a, b)] }

// Uncut forgets the partitions of peer a without re-creating links (used right
// before AddPeer replaces a killed peer: AddPeer links the new incarnation).
func (n *Net) Uncut(a int) {
	for _, b := range n.sortedIdx() {
		delete(n.cut, pair(a, b))
	}
}
