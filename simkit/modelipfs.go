package simkit

import (
	"context"
	"errors"
	"fmt"
	"sort"
	"sync"

	cid "github.com/ipfs/go-cid"
	"github.com/ipfs/ipfs-cluster/api"
	peer "github.com/libp2p/go-libp2p-core/peer"
)

// ModelIPFS is the reference IPFS daemon (+ the connector's idempotence rules)
// that stands behind the "IPFSConnector" RPC service in trackersim/clustersim.
//
// Pin table: cid -> "recursive" | "direct".
//   - pin add of a CID already held in the requested mode is a no-op success;
//   - pin add --recursive=false of a recursively pinned CID fails (go-ipfs:
//     "already pinned recursively"); recursive over direct upgrades;
//   - pin rm of an absent CID succeeds (the connector tolerates "not pinned").
//
// Cancellation is a barrier (DESIGN §5): the effect of a mutating call lands
// atomically at the instant the simulator releases it; if the caller's context
// was cancelled before that instant the effect never lands.
type ModelIPFS struct {
	run *Run
	who string

	mu      sync.Mutex
	pins    map[string]string
	hold    bool
	parked  []*ParkedCall
	script  []string // outcomes for calls that are not held: ok | err | lost
	down    bool     // reads fail
	nextID  int
	Calls   []IPFSCall
	lastErr map[string]bool // cid -> last mutating call reported an error to the caller
}

type IPFSCall struct {
	ID      int
	Kind    string // pin | unpin
	Cid     string
	Mode    string
	Outcome string // ok | err | lost | cancelled | noop
	Seq     int
}

type ParkedCall struct {
	ID      int
	Kind    string
	Pin     *api.Pin
	ctx     context.Context
	release chan error
	done    bool
}

var ErrIPFS = errors.New("model ipfs: injected daemon error")

func NewModelIPFS(run *Run, who string) *ModelIPFS {
	return &ModelIPFS{run: run, who: who, pins: map[string]string{}, lastErr: map[string]bool{}}
}

func modeOf(p *api.Pin) string {
	if p.MaxDepth == 0 {
		return "direct"
	}
	return "recursive"
}

// SetHold makes subsequent mutating calls park until Release.
func (m *ModelIPFS) SetHold(h bool) { m.mu.Lock(); m.hold = h; m.mu.Unlock() }

// SetDown makes read calls fail.
func (m *ModelIPFS) SetDown(d bool) { m.mu.Lock(); m.down = d; m.mu.Unlock() }

// Script queues outcomes for the next non-held mutating calls.
func (m *ModelIPFS) Script(outcomes ...string) {
	m.mu.Lock()
	m.script = append(m.script, outcomes...)
	m.mu.Unlock()
}

func (m *ModelIPFS) ClearScript() { m.mu.Lock(); m.script = nil; m.mu.Unlock() }

// Parked returns the number of parked calls.
func (m *ModelIPFS) Parked() int {
	m.mu.Lock()
	defer m.mu.Unlock()
	m.gcParked()
	return len(m.parked)
}

func (m *ModelIPFS) gcParked() {
	out := m.parked[:0]
	for _, p := range m.parked {
		if !p.done {
			out = append(out, p)
		}
	}
	m.parked = out
}

// Holds reports the mode in which the daemon holds c ("" if not pinned).
func (m *ModelIPFS) Holds(c cid.Cid) string {
	m.mu.Lock()
	defer m.mu.Unlock()
	return m.pins[c.String()]
}

// LastFailed reports whether the last mutating call for c returned an error.
func (m *ModelIPFS) LastFailed(c cid.Cid) bool {
	m.mu.Lock()
	defer m.mu.Unlock()
	return m.lastErr[c.String()]
}

// ForcePin sets daemon content directly (initial conditions).
func (m *ModelIPFS) ForcePin(c cid.Cid, mode string) {
	m.mu.Lock()
	if mode == "" {
		delete(m.pins, c.String())
	} else {
		m.pins[c.String()] = mode
	}
	m.mu.Unlock()
}

// Snapshot returns "cid=mode" strings, sorted.
func (m *ModelIPFS) Snapshot() []string {
	m.mu.Lock()
	defer m.mu.Unlock()
	var out []string
	for k, v := range m.pins {
		out = append(out, k+"="+v)
	}
	sort.Strings(out)
	return out
}

// apply lands the effect. Caller holds mu.
func (m *ModelIPFS) apply(kind string, p *api.Pin) (string, error) {
	k := p.Cid.String()
	switch kind {
	case "pin":
		want := modeOf(p)
		have := m.pins[k]
		switch {
		case have == want:
			return "noop", nil
		case have == "recursive" && want == "direct":
			return "err", fmt.Errorf("model ipfs: %s already pinned recursively", k)
		default:
			m.pins[k] = want
			return "ok", nil
		}
	case "unpin":
		if _, ok := m.pins[k]; !ok {
			return "noop", nil
		}
		delete(m.pins, k)
		return "ok", nil
	}
	return "err", errors.New("model ipfs: unknown call kind")
}

func (m *ModelIPFS) record(id int, kind string, p *api.Pin, outcome string) {
	seq := m.run.Ev(m.who, "ipfs."+kind, "%s mode=%s -> %s", short(p.Cid), modeOf(p), outcome)
	m.Calls = append(m.Calls, IPFSCall{ID: id, Kind: kind, Cid: p.Cid.String(), Mode: modeOf(p), Outcome: outcome, Seq: seq})
	if outcome != "cancelled" {
		m.lastErr[p.Cid.String()] = outcome == "err" || outcome == "lost"
	}
}

func short(c cid.Cid) string {
	s := c.String()
	if len(s) > 8 {
		return s[len(s)-8:]
	}
	return s
}

// finish decides and lands the outcome of a call. Caller holds mu.
func (m *ModelIPFS) finish(id int, kind string, p *api.Pin, outcome string) error {
	switch outcome {
	case "err": // the daemon refuses: nothing changes
		m.record(id, kind, p, "err")
		return ErrIPFS
	case "errc": // nothing changes, and the failure wraps context.Canceled: what the
		// connector reports when its own no-progress watchdog cancels the request.
		// Not a cancellation of the tracker's operation.
		m.record(id, kind, p, "err")
		return fmt.Errorf("model ipfs: request cancelled by the connector's progress watchdog: %w", context.Canceled)
	case "lost": // the effect lands but the answer is lost on the way back
		_, err := m.apply(kind, p)
		if err != nil {
			m.record(id, kind, p, "err")
			return err
		}
		m.record(id, kind, p, "lost")
		return errors.New("model ipfs: connection reset after the daemon acted")
	default:
		o, err := m.apply(kind, p)
		m.record(id, kind, p, o)
		return err
	}
}

// Mutate is the body of the Pin/Unpin RPC endpoints.
func (m *ModelIPFS) Mutate(ctx context.Context, kind string, p *api.Pin) error {
	m.mu.Lock()
	m.nextID++
	id := m.nextID
	if ctx.Err() != nil {
		m.record(id, kind, p, "cancelled")
		m.mu.Unlock()
		return ctx.Err()
	}
	if !m.hold {
		outcome := "ok"
		if len(m.script) > 0 {
			outcome = m.script[0]
			m.script = m.script[1:]
		}
		err := m.finish(id, kind, p, outcome)
		m.mu.Unlock()
		return err
	}
	pc := &ParkedCall{ID: id, Kind: kind, Pin: p, ctx: ctx, release: make(chan error, 1)}
	m.parked = append(m.parked, pc)
	m.run.Ev(m.who, "ipfs.park", "%s %s", kind, short(p.Cid))
	m.mu.Unlock()
	select {
	case err := <-pc.release:
		return err
	case <-ctx.Done():
		m.mu.Lock()
		if pc.done { // released in the same instant: the release wins, effect landed
			m.mu.Unlock()
			return <-pc.release
		}
		pc.done = true
		m.record(id, kind, p, "cancelled")
		m.mu.Unlock()
		return ctx.Err()
	}
}

// Release completes the k-th parked call (arrival order, modulo the number
// parked) with the given outcome. It returns false if nothing was parked.
func (m *ModelIPFS) Release(k int, outcome string) bool {
	m.mu.Lock()
	defer m.mu.Unlock()
	m.gcParked()
	if len(m.parked) == 0 {
		return false
	}
	if k < 0 {
		k = -k
	}
	pc := m.parked[k%len(m.parked)]
	pc.done = true
	if pc.ctx.Err() != nil { // barrier: cancelled before the effect instant
		m.record(pc.ID, pc.Kind, pc.Pin, "cancelled")
		pc.release <- pc.ctx.Err()
		return true
	}
	pc.release <- m.finish(pc.ID, pc.Kind, pc.Pin, outcome)
	return true
}

// ---- reads ----

func (m *ModelIPFS) LsCid(p *api.Pin) (api.IPFSPinStatus, error) {
	m.mu.Lock()
	defer m.mu.Unlock()
	if m.down {
		return api.IPFSPinStatusError, errors.New("model ipfs: daemon unreachable")
	}
	have := m.pins[p.Cid.String()]
	if have == "" || have != modeOf(p) { // pin ls --type=<mode> arg: other modes are "not pinned"
		return api.IPFSPinStatusUnpinned, nil
	}
	if have == "direct" {
		return api.IPFSPinStatusDirect, nil
	}
	return api.IPFSPinStatusRecursive, nil
}

func (m *ModelIPFS) Ls(typeFilter string) (map[string]api.IPFSPinStatus, error) {
	m.mu.Lock()
	defer m.mu.Unlock()
	if m.down {
		return nil, errors.New("model ipfs: daemon unreachable")
	}
	out := map[string]api.IPFSPinStatus{}
	for k, v := range m.pins {
		if typeFilter == "all" || typeFilter == "" || typeFilter == v {
			if v == "direct" {
				out[k] = api.IPFSPinStatusDirect
			} else {
				out[k] = api.IPFSPinStatusRecursive
			}
		}
	}
	return out, nil
}

// IPFSConnectorSvc is registered under the name "IPFSConnector". Only RPC
// methods are exported on it.
type IPFSConnectorSvc struct{ M *ModelIPFS }

func (s *IPFSConnectorSvc) Pin(ctx context.Context, in *api.Pin, out *struct{}) error {
	return s.M.Mutate(ctx, "pin", in)
}

func (s *IPFSConnectorSvc) Unpin(ctx context.Context, in *api.Pin, out *struct{}) error {
	return s.M.Mutate(ctx, "unpin", in)
}

func (s *IPFSConnectorSvc) PinLsCid(ctx context.Context, in *api.Pin, out *api.IPFSPinStatus) error {
	st, err := s.M.LsCid(in)
	*out = st
	return err
}

func (s *IPFSConnectorSvc) PinLs(ctx context.Context, in string, out *map[string]api.IPFSPinStatus) error {
	r, err := s.M.Ls(in)
	*out = r
	return err
}

func (s *IPFSConnectorSvc) RepoStat(ctx context.Context, in struct{}, out *api.IPFSRepoStat) error {
	*out = api.IPFSRepoStat{RepoSize: 1000, StorageMax: 100000}
	return nil
}

func (s *IPFSConnectorSvc) SwarmPeers(ctx context.Context, in struct{}, out *[]peer.ID) error {
	*out = []peer.ID{}
	return nil
}
