// empty: allows the body-less linkname declaration in rt.go
