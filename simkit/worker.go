package simkit

import (
	"encoding/json"
	"flag"
	"fmt"
	"os"
	"runtime"
	"runtime/debug"
	"strings"
	"testing"
	"testing/synctest"
	"time"
)

// Harness is implemented once per harness package.
type Harness interface {
	Name() string
	// Generate builds the plan for (property, tier, seed): a pure function.
	Generate(prop, tier string, seed uint64) *Plan
	// Execute runs the plan inside the bubble. It must call run.Begin() first
	// and must return with every goroutine it started either finished or
	// durably blocked.
	Execute(t *testing.T, plan *Plan, run *Run)
}

var (
	fCmd      = flag.String("sim.cmd", "", "batch | run | gen")
	fProp     = flag.String("sim.prop", "", "property id")
	fTier     = flag.String("sim.tier", "quick", "quick | thorough")
	fFrom     = flag.Uint64("sim.from", 1, "first plan seed")
	fCount    = flag.Int("sim.count", 1, "number of plans")
	fStride   = flag.Uint64("sim.stride", 1, "seed stride")
	fOut      = flag.String("sim.out", "", "result file (JSON lines, appended)")
	fPlan     = flag.String("sim.plan", "", "plan file for -sim.cmd=run")
	fTrace    = flag.String("sim.trace", "", "write the canonical trace here")
	fDeadline = flag.Float64("sim.deadline", 0, "wall-clock budget in seconds for a batch (0 = none)")
	fPlanWall = flag.Float64("sim.planwall", 0, "real-time budget in seconds for one plan of a batch (0 = none): a plan over it is abandoned at its next step boundary")
	fVerbose  = flag.Bool("sim.v", false, "print the trace")
	fNoWarm   = flag.Bool("sim.nowarm", false, "no throw-away plan first (checks that run one plan per process: every plan is then the first of its process, in exploration and in replay alike)")
)

// Main is called from each harness's TestSim.
func Main(t *testing.T, h Harness) {
	switch *fCmd {
	case "":
		t.Skip("no -sim.cmd: this test binary is driven by /verif/bin/vcheck")
	case "gen":
		p := h.Generate(*fProp, *fTier, *fFrom)
		b, _ := json.MarshalIndent(p, "", " ")
		emit(string(b) + "\n")
	case "run":
		b, err := os.ReadFile(*fPlan)
		if err != nil {
			fatal("read plan: %v", err)
		}
		var p Plan
		if err := json.Unmarshal(b, &p); err != nil {
			fatal("decode plan: %v", err)
		}
		warmUp(t, h, p.Property, "quick")
		marker(p.Seed)
		res, run := ExecPlan(t, h, &p, true)
		writeResult(res)
		if *fTrace != "" {
			os.WriteFile(*fTrace, []byte(run.TraceText()), 0o644)
		}
		if *fVerbose {
			fmt.Fprint(os.Stderr, run.TraceText())
		}
	case "batch":
		warmUp(t, h, *fProp, *fTier)
		t0 := time.Now()
		for i := 0; i < *fCount; i++ {
			if *fDeadline > 0 && time.Since(t0).Seconds() > *fDeadline {
				break
			}
			seed := *fFrom + uint64(i)**fStride
			p := h.Generate(*fProp, *fTier, seed)
			marker(seed)
			planWall = time.Duration(*fPlanWall * float64(time.Second))
			res, run := ExecPlan(t, h, p, false)
			planWall = 0
			writeResult(res)
			if *fTrace != "" {
				os.WriteFile(fmt.Sprintf("%s.%d", *fTrace, seed), []byte(run.TraceText()), 0o644)
			}
		}
	default:
		fatal("unknown -sim.cmd %q", *fCmd)
	}
}

// warmUp executes one fixed plan and discards it. The first plan of a process
// pays for lazy global initialisation in the libraries (which also draws from
// the runtime's deterministic streams); running a throw-away plan first makes
// every real plan behave the same wherever it sits in a batch and in a fresh
// replay process.
func warmUp(t *testing.T, h Harness, prop, tier string) {
	if *fNoWarm {
		return
	}
	p := h.Generate(prop, tier, 0)
	ExecPlan(t, h, p, false)
}

func fatal(format string, a ...interface{}) {
	fmt.Fprintf(os.Stderr, "simkit: "+format+"\n", a...)
	os.Exit(2)
}

var outFile *os.File

func emit(s string) {
	if *fOut == "" {
		os.Stdout.WriteString(s)
		return
	}
	if outFile == nil {
		f, err := os.OpenFile(*fOut, os.O_CREATE|os.O_APPEND|os.O_WRONLY, 0o644)
		if err != nil {
			fatal("open out: %v", err)
		}
		outFile = f
	}
	outFile.WriteString(s)
}

// marker lets the driver attribute a crashed worker to the plan in flight.
func marker(seed uint64) { emit(fmt.Sprintf("{\"start\":%d}\n", seed)) }

func writeResult(res *Result) {
	b, _ := json.Marshal(res)
	emit(string(b) + "\n")
}

// planWall is the real-time budget of the plans of a batch (exploration only).
var planWall time.Duration

// ExecPlan runs one plan in a fresh bubble and returns its result.
func ExecPlan(t *testing.T, h Harness, p *Plan, keepTrace bool) (*Result, *Run) {
	run := NewRun(p)
	run.KeepTrace = keepTrace
	old := debug.SetGCPercent(-1)
	ResetRuntime(p.RTSeed)
	// knob "lock_yield": per-mille probability that a lock acquisition inside
	// the bubble is a scheduling point (0 = the plain run-until-blocked order)
	SetLockYield(int(p.Knob("lock_yield", 0)))
	defer SetLockYield(0)
	// crypto/rand and google/uuid (bitswap task ids, DHT, datastore keys) draw
	// from the plan's stream, not from the kernel
	if os.Getenv("VERIF_RT_TRACE") != "" {
		TraceDraws(true)
		defer TraceDraws(false)
	}
	restoreRand := seedCryptoRand(p.Seed)
	defer restoreRand()
	w0 := time.Now() // outside the bubble: real time
	run.SetWallBudget(planWall)
	errText := ""
	func() {
		defer func() {
			if r := recover(); r != nil {
				s := fmt.Sprint(r)
				// Leaving the bubble while library goroutines are parked is
				// expected on the heavy stacks and is not a finding.
				if strings.Contains(s, "main bubble goroutine has exited but blocked goroutines remain") {
					return
				}
				if strings.Contains(s, "all goroutines in bubble are blocked") {
					run.Violate("deadlock", "bubble", "synctest: %s", s)
					return
				}
				errText = "panic outside root: " + s
			}
		}()
		ok := t.Run(fmt.Sprintf("p%d", p.Seed), func(t *testing.T) {
			defer func() {
				if r := recover(); r != nil {
					s := fmt.Sprint(r)
					if strings.Contains(s, "main bubble goroutine has exited but blocked goroutines remain") {
						return
					}
					if strings.Contains(s, "all goroutines in bubble are blocked") {
						run.Violate("deadlock", "bubble", "synctest: %s", s)
						return
					}
					errText = "panic: " + s + "\n" + string(debug.Stack())
				}
			}()
			synctest.Test(t, func(t *testing.T) {
				defer func() {
					if r := recover(); r != nil {
						if e, ok := r.(EndPlan); ok {
							// the harness ended the plan on purpose (it has said why
							// with a probe or a violation); what was recorded stands
							run.Ev("sim", "plan_ended", "%s", e.Why)
							return
						}
						errText = fmt.Sprintf("panic in plan root: %v\n%s", r, debug.Stack())
					}
				}()
				h.Execute(t, p, run)
			})
		})
		_ = ok
	}()
	wall := time.Since(w0)
	sh, sn := SchedDigest()
	res := run.Finish(wall)
	res.SchedDigest, res.SchedSteps = fmt.Sprintf("%016x", sh), sn
	if errText != "" {
		res.Verdict = "error"
		res.Error = errText
	}
	debug.SetGCPercent(old)
	runtime.GC()
	return res, run
}
