package simkit

import _ "unsafe" // for go:linkname

// simReset is provided by the patched runtime (simrt overlay). Building simkit
// without the overlay fails at link time, which is intended: a harness linked
// against the stock runtime would not be replayable.
//
//go:linkname simReset runtime.simReset
func simReset(seed uint64)

// ResetRuntime restarts the runtime's deterministic tie-break streams.
func ResetRuntime(seed uint64) { simReset(seed) }
