package simkit

import _ "unsafe" // for go:linkname

// simReset is provided by the patched runtime (simrt overlay). Building simkit
// without the overlay fails at link time, which is intended: a harness linked
// against the stock runtime would not be replayable.
//
//go:linkname simReset runtime.simReset
func simReset(seed uint64)

// ResetRuntime restarts the runtime's deterministic tie-break streams.
func ResetRuntime(seed uint64) { simReset(seed) }

//go:linkname simSetYield runtime.simSetYield
func simSetYield(permille uint32)

// SetLockYield makes every sync.Mutex / RWMutex acquisition inside the bubble a
// seeded scheduling point with the given probability (per mille); 0 switches
// it off. Plans of the race/deadlock property set it from a knob.
func SetLockYield(permille int) { simSetYield(uint32(permille)) }

//go:linkname simCounters runtime.simCounters
func simCounters() (uint64, uint64)

// RuntimeCounters: positions of the runtime's deterministic streams.
func RuntimeCounters() (uint64, uint64) { return simCounters() }

//go:linkname simSetTrace runtime.simSetTrace
func simSetTrace(on bool)

// TraceDraws switches the runtime's draw trace on or off (debugging aid).
func TraceDraws(on bool) { simSetTrace(on) }

//go:linkname simSched runtime.simSched
func simSched() (uint64, uint64)

// SchedDigest: rolling hash of the scheduling decisions since the last reset,
// and their number.
func SchedDigest() (uint64, uint64) { return simSched() }

// rtNanotime is the machine's monotonic clock. time.Now and time.Since are
// simulated inside a bubble; the per-plan wall budget (Run.WallOver) needs the
// real one and reads it without a goroutine or a timer of its own, so that it
// takes no part in the schedule.
//
//go:linkname rtNanotime runtime.nanotime
func rtNanotime() int64
