package simkit

import (
	"context"
	"errors"
	"fmt"
	"sort"
	"sync"
	"time"

	cid "github.com/ipfs/go-cid"
	ds "github.com/ipfs/go-datastore"
	dssync "github.com/ipfs/go-datastore/sync"
	"github.com/ipfs/ipfs-cluster/api"
	"github.com/ipfs/ipfs-cluster/monitor/metrics"
	"github.com/ipfs/ipfs-cluster/state"
	"github.com/ipfs/ipfs-cluster/state/dsstate"
	peer "github.com/libp2p/go-libp2p-core/peer"
	rpc "github.com/libp2p/go-libp2p-gorpc"
)

// ---------------------------------------------------------------- consensus

// SharedPinset is the single-copy, linearizable pinset behind every
// ModelConsensus of one simulated cluster. Pins are stored through the real
// dsstate (protobuf form) over an in-memory datastore, so what a caller reads
// back went through the same serialisation boundary as in a real peer.
type SharedPinset struct {
	mu      sync.Mutex
	st      *dsstate.State
	peers   []peer.ID
	trusted map[peer.ID]bool // nil: everyone is trusted (Raft semantics)
	Log     []ConsOp
	FailOps int // next n LogPin/LogUnpin fail (consensus unavailable)
	// CommitLatency makes LogPin/LogUnpin take simulated time before the
	// write lands (a Raft commit is not instantaneous): concurrent callers
	// then decide on the same pre-state.
	CommitLatency time.Duration
	run           *Run
}

type ConsOp struct {
	By   peer.ID
	Op   string // pin | unpin | addpeer | rmpeer
	Pin  *api.Pin
	Peer peer.ID
	Seq  int
	Err  bool
}

func NewSharedPinset(run *Run, peers []peer.ID) *SharedPinset {
	st, err := dsstate.New(dssync.MutexWrap(ds.NewMapDatastore()), "/pins", nil)
	if err != nil {
		panic(err)
	}
	ps := make([]peer.ID, len(peers))
	copy(ps, peers)
	return &SharedPinset{st: st, peers: ps, run: run}
}

func (s *SharedPinset) State() *dsstate.State { return s.st }

func (s *SharedPinset) SetTrusted(t map[peer.ID]bool) { s.mu.Lock(); s.trusted = t; s.mu.Unlock() }

func (s *SharedPinset) Peers() []peer.ID {
	s.mu.Lock()
	defer s.mu.Unlock()
	out := make([]peer.ID, len(s.peers))
	copy(out, s.peers)
	return out
}

func (s *SharedPinset) SetPeers(ps []peer.ID) {
	s.mu.Lock()
	s.peers = append([]peer.ID{}, ps...)
	s.mu.Unlock()
}

// List returns the pinset sorted by CID string.
func (s *SharedPinset) List() []*api.Pin {
	l, err := s.st.List(context.Background())
	if err != nil {
		panic(err)
	}
	sort.Slice(l, func(i, j int) bool { return l[i].Cid.String() < l[j].Cid.String() })
	return l
}

// LogSince returns the operations recorded after index n.
func (s *SharedPinset) LogSince(n int) []ConsOp {
	s.mu.Lock()
	defer s.mu.Unlock()
	out := make([]ConsOp, len(s.Log)-n)
	copy(out, s.Log[n:])
	return out
}

func (s *SharedPinset) LogLen() int { s.mu.Lock(); defer s.mu.Unlock(); return len(s.Log) }

// ModelConsensus implements ipfscluster.Consensus for one peer.
type ModelConsensus struct {
	Sh    *SharedPinset
	Self  peer.ID
	ready chan struct{}
	down  bool
}

func NewModelConsensus(sh *SharedPinset, self peer.ID) *ModelConsensus {
	c := &ModelConsensus{Sh: sh, Self: self, ready: make(chan struct{})}
	close(c.ready)
	return c
}

var ErrConsensus = errors.New("model consensus: injected commit failure")

func (c *ModelConsensus) SetClient(*rpc.Client)                 {}
func (c *ModelConsensus) Shutdown(context.Context) error        { c.down = true; return nil }
func (c *ModelConsensus) Ready(context.Context) <-chan struct{} { return c.ready }

func (c *ModelConsensus) log(op string, p *api.Pin) error {
	s := c.Sh
	if s.CommitLatency > 0 {
		time.Sleep(s.CommitLatency)
	}
	s.mu.Lock()
	defer s.mu.Unlock()
	cp := *p
	rec := ConsOp{By: c.Self, Op: op, Pin: &cp}
	if s.FailOps > 0 {
		s.FailOps--
		rec.Err = true
		rec.Seq = s.run.Ev("cons", op+".fail", "%s by %s", short(p.Cid), shortPeer(c.Self))
		s.Log = append(s.Log, rec)
		return ErrConsensus
	}
	var err error
	if op == "pin" {
		err = s.st.Add(context.Background(), p)
	} else {
		err = s.st.Rm(context.Background(), p.Cid)
	}
	rec.Seq = s.run.Ev("cons", op, "%s by %s allocs=%d", short(p.Cid), shortPeer(c.Self), len(p.Allocations))
	s.Log = append(s.Log, rec)
	return err
}

func shortPeer(p peer.ID) string {
	s := p.Pretty()
	if len(s) > 6 {
		return s[len(s)-6:]
	}
	return s
}

func (c *ModelConsensus) LogPin(ctx context.Context, p *api.Pin) error   { return c.log("pin", p) }
func (c *ModelConsensus) LogUnpin(ctx context.Context, p *api.Pin) error { return c.log("unpin", p) }

func (c *ModelConsensus) AddPeer(ctx context.Context, p peer.ID) error {
	s := c.Sh
	s.mu.Lock()
	defer s.mu.Unlock()
	for _, q := range s.peers {
		if q == p {
			return nil
		}
	}
	s.peers = append(s.peers, p)
	s.Log = append(s.Log, ConsOp{By: c.Self, Op: "addpeer", Peer: p, Seq: s.run.Ev("cons", "addpeer", "%s", shortPeer(p))})
	return nil
}

func (c *ModelConsensus) RmPeer(ctx context.Context, p peer.ID) error {
	s := c.Sh
	s.mu.Lock()
	defer s.mu.Unlock()
	out := s.peers[:0]
	for _, q := range s.peers {
		if q != p {
			out = append(out, q)
		}
	}
	s.peers = out
	s.Log = append(s.Log, ConsOp{By: c.Self, Op: "rmpeer", Peer: p, Seq: s.run.Ev("cons", "rmpeer", "%s", shortPeer(p))})
	return nil
}

func (c *ModelConsensus) State(context.Context) (state.ReadOnly, error) { return c.Sh.st, nil }
func (c *ModelConsensus) Leader(context.Context) (peer.ID, error) {
	ps := c.Sh.Peers()
	if len(ps) == 0 {
		return "", errors.New("no peers")
	}
	return ps[0], nil
}
func (c *ModelConsensus) WaitForSync(context.Context) error { return nil }
func (c *ModelConsensus) Clean(context.Context) error       { return nil }
func (c *ModelConsensus) Peers(context.Context) ([]peer.ID, error) {
	return c.Sh.Peers(), nil
}
func (c *ModelConsensus) IsTrustedPeer(ctx context.Context, p peer.ID) bool {
	c.Sh.mu.Lock()
	defer c.Sh.mu.Unlock()
	if c.Sh.trusted == nil || p == c.Self {
		return true
	}
	return c.Sh.trusted[p]
}
func (c *ModelConsensus) Trust(ctx context.Context, p peer.ID) error {
	c.Sh.mu.Lock()
	defer c.Sh.mu.Unlock()
	if c.Sh.trusted != nil {
		c.Sh.trusted[p] = true
	}
	return nil
}
func (c *ModelConsensus) Distrust(ctx context.Context, p peer.ID) error {
	c.Sh.mu.Lock()
	defer c.Sh.mu.Unlock()
	if c.Sh.trusted != nil {
		delete(c.Sh.trusted, p)
	}
	return nil
}

// ---------------------------------------------------------------- monitor

// ModelMonitor implements ipfscluster.PeerMonitor. Metrics are kept in the
// real metrics.Store (so freshness is judged by the real code on the fake
// clock); alerts are injected by the plan; publications are recorded.
type ModelMonitor struct {
	run       *Run
	who       string
	store     *metrics.Store
	alerts    chan *api.Alert
	mu        sync.Mutex
	Published []PublishedMetric
	FailPub   int // next n PublishMetric calls fail
	peers     func() []peer.ID
	// latest is the simulator's own record of the last metric received per
	// (name, peer): oracles read this, never the Store under test.
	latest map[string]api.Metric
}

type PublishedMetric struct {
	At     time.Time
	Name   string
	Expire int64
	Valid  bool
	Err    bool
	Value  string
}

func NewModelMonitor(run *Run, who string, peers func() []peer.ID) *ModelMonitor {
	return &ModelMonitor{run: run, who: who, store: metrics.NewStore(), alerts: make(chan *api.Alert, 256), peers: peers, latest: map[string]api.Metric{}}
}

func (m *ModelMonitor) SetClient(*rpc.Client)          {}
func (m *ModelMonitor) Shutdown(context.Context) error { return nil }
func (m *ModelMonitor) LogMetric(ctx context.Context, mt *api.Metric) error {
	m.mu.Lock()
	m.latest[mt.Name+"|"+string(mt.Peer)] = *mt
	m.mu.Unlock()
	m.store.Add(mt)
	return nil
}

// Recorded returns the last metric this monitor received for (name, peer),
// from the simulator's own table.
func (m *ModelMonitor) Recorded(name string, p peer.ID) (api.Metric, bool) {
	m.mu.Lock()
	defer m.mu.Unlock()
	mt, ok := m.latest[name+"|"+string(p)]
	return mt, ok
}
func (m *ModelMonitor) PublishMetric(ctx context.Context, mt *api.Metric) error {
	m.mu.Lock()
	rec := PublishedMetric{At: time.Now(), Name: mt.Name, Expire: mt.Expire, Valid: mt.Valid, Value: mt.Value}
	if m.FailPub > 0 {
		m.FailPub--
		rec.Err = true
		m.Published = append(m.Published, rec)
		m.mu.Unlock()
		m.run.Ev(m.who, "publish.fail", "%s", mt.Name)
		return errors.New("model monitor: injected publish failure")
	}
	m.Published = append(m.Published, rec)
	m.latest[mt.Name+"|"+string(mt.Peer)] = *mt
	m.mu.Unlock()
	m.run.Ev(m.who, "publish", "%s valid=%v ttl=%dms", mt.Name, mt.Valid, (mt.Expire-time.Now().UnixNano())/1e6)
	cp := *mt
	m.store.Add(&cp)
	return nil
}
func (m *ModelMonitor) SetFailPub(n int) { m.mu.Lock(); m.FailPub = n; m.mu.Unlock() }
func (m *ModelMonitor) PublishedCopy() []PublishedMetric {
	m.mu.Lock()
	defer m.mu.Unlock()
	return append([]PublishedMetric{}, m.Published...)
}
func (m *ModelMonitor) LatestMetrics(ctx context.Context, name string) []*api.Metric {
	l := m.store.LatestValid(name)
	if m.peers == nil {
		return l
	}
	return metrics.PeersetFilter(l, m.peers())
}
func (m *ModelMonitor) MetricNames(context.Context) []string { return m.store.MetricNames() }
func (m *ModelMonitor) Alerts() <-chan *api.Alert            { return m.alerts }

// Inject delivers an alert to the cluster's alert handler.
func (m *ModelMonitor) Inject(a *api.Alert) bool {
	select {
	case m.alerts <- a:
		return true
	default:
		return false
	}
}

// Store gives the oracle access to the raw table.
func (m *ModelMonitor) Store() *metrics.Store { return m.store }

// ---------------------------------------------------------------- tracker

// ModelTracker implements ipfscluster.PinTracker by recording.
type ModelTracker struct {
	mu   sync.Mutex
	self peer.ID
	// Client is the Cluster's own RPC client (handed to every component):
	// the only way to make "local" calls to RPCClosed endpoints.
	Client *rpc.Client
	Calls  []string
	// Status to report per cid (default pinned)
	Statuses map[string]api.TrackerStatus
}

func NewModelTracker(self peer.ID) *ModelTracker {
	return &ModelTracker{self: self, Statuses: map[string]api.TrackerStatus{}}
}
func (t *ModelTracker) SetClient(c *rpc.Client)        { t.Client = c }
func (t *ModelTracker) Shutdown(context.Context) error { return nil }
func (t *ModelTracker) Track(ctx context.Context, p *api.Pin) error {
	t.mu.Lock()
	t.Calls = append(t.Calls, "track "+p.Cid.String())
	t.mu.Unlock()
	return nil
}
func (t *ModelTracker) Untrack(ctx context.Context, c cid.Cid) error {
	t.mu.Lock()
	t.Calls = append(t.Calls, "untrack "+c.String())
	t.mu.Unlock()
	return nil
}

// SetStatus makes the tracker report st for c from now on.
func (t *ModelTracker) SetStatus(c cid.Cid, st api.TrackerStatus) {
	t.mu.Lock()
	t.Statuses[c.String()] = st
	t.mu.Unlock()
}

func (t *ModelTracker) pi(c cid.Cid) *api.PinInfo {
	st, ok := t.Statuses[c.String()]
	if !ok {
		st = api.TrackerStatusPinned
	}
	return &api.PinInfo{Cid: c, Peer: t.self, PinInfoShort: api.PinInfoShort{Status: st, TS: time.Now()}}
}
func (t *ModelTracker) StatusAll(ctx context.Context, f api.TrackerStatus) []*api.PinInfo {
	t.mu.Lock()
	defer t.mu.Unlock()
	var out []*api.PinInfo
	ks := make([]string, 0, len(t.Statuses))
	for k := range t.Statuses {
		ks = append(ks, k)
	}
	sort.Strings(ks)
	for _, k := range ks {
		c, _ := cid.Decode(k)
		p := t.pi(c)
		if p.Status.Match(f) {
			out = append(out, p)
		}
	}
	return out
}
func (t *ModelTracker) Status(ctx context.Context, c cid.Cid) *api.PinInfo {
	t.mu.Lock()
	defer t.mu.Unlock()
	return t.pi(c)
}
func (t *ModelTracker) RecoverAll(ctx context.Context) ([]*api.PinInfo, error) {
	return t.StatusAll(ctx, api.TrackerStatusUndefined), nil
}
func (t *ModelTracker) Recover(ctx context.Context, c cid.Cid) (*api.PinInfo, error) {
	return t.Status(ctx, c), nil
}

// ---------------------------------------------------------------- ipfs connector

// ModelIPFSConn implements ipfscluster.IPFSConnector over a ModelIPFS.
type ModelIPFSConn struct {
	M      *ModelIPFS
	Blocks map[string][]byte
	mu     sync.Mutex
	Paths  map[string]cid.Cid // Resolve table
	// a slow daemon: simulated time RepoStat / PinLs take (set before use)
	StatDelay, LsDelay time.Duration
}

func sleepOrDone(ctx context.Context, d time.Duration) error {
	if d <= 0 {
		return nil
	}
	t := time.NewTimer(d)
	defer t.Stop()
	select {
	case <-t.C:
		return nil
	case <-ctx.Done():
		return ctx.Err()
	}
}

func NewModelIPFSConn(m *ModelIPFS) *ModelIPFSConn {
	return &ModelIPFSConn{M: m, Blocks: map[string][]byte{}, Paths: map[string]cid.Cid{}}
}
func (i *ModelIPFSConn) SetClient(*rpc.Client)          {}
func (i *ModelIPFSConn) Shutdown(context.Context) error { return nil }
func (i *ModelIPFSConn) ID(context.Context) (*api.IPFSID, error) {
	return &api.IPFSID{ID: TestPeer(900)}, nil
}
func (i *ModelIPFSConn) Pin(ctx context.Context, p *api.Pin) error { return i.M.Mutate(ctx, "pin", p) }
func (i *ModelIPFSConn) Unpin(ctx context.Context, c cid.Cid) error {
	return i.M.Mutate(ctx, "unpin", api.PinCid(c))
}
func (i *ModelIPFSConn) PinLsCid(ctx context.Context, p *api.Pin) (api.IPFSPinStatus, error) {
	return i.M.LsCid(p)
}
func (i *ModelIPFSConn) PinLs(ctx context.Context, f string) (map[string]api.IPFSPinStatus, error) {
	if err := sleepOrDone(ctx, i.LsDelay); err != nil {
		return nil, err
	}
	return i.M.Ls(f)
}
func (i *ModelIPFSConn) ConnectSwarms(context.Context) error           { return nil }
func (i *ModelIPFSConn) SwarmPeers(context.Context) ([]peer.ID, error) { return nil, nil }
func (i *ModelIPFSConn) ConfigKey(string) (interface{}, error)         { return nil, errors.New("no such key") }
func (i *ModelIPFSConn) RepoStat(ctx context.Context) (*api.IPFSRepoStat, error) {
	if err := sleepOrDone(ctx, i.StatDelay); err != nil {
		return nil, err
	}
	return &api.IPFSRepoStat{RepoSize: 1000, StorageMax: 1000000}, nil
}
func (i *ModelIPFSConn) RepoGC(context.Context) (*api.RepoGC, error) { return &api.RepoGC{}, nil }
func (i *ModelIPFSConn) Resolve(ctx context.Context, path string) (cid.Cid, error) {
	i.mu.Lock()
	defer i.mu.Unlock()
	if c, ok := i.Paths[path]; ok {
		return c, nil
	}
	return cid.Undef, fmt.Errorf("model ipfs: cannot resolve %s", path)
}
func (i *ModelIPFSConn) BlockPut(ctx context.Context, n *api.NodeWithMeta) error {
	i.mu.Lock()
	i.Blocks[n.Cid.String()] = n.Data
	i.mu.Unlock()
	return nil
}
func (i *ModelIPFSConn) BlockGet(ctx context.Context, c cid.Cid) ([]byte, error) {
	i.mu.Lock()
	defer i.mu.Unlock()
	b, ok := i.Blocks[c.String()]
	if !ok {
		return nil, errors.New("model ipfs: block not found")
	}
	return b, nil
}

// ---------------------------------------------------------------- informer / tracer

// ModelInformer implements ipfscluster.Informer with plan-driven values.
type ModelInformer struct {
	mu    sync.Mutex
	name  string
	Value string
	TTL   time.Duration
	Valid bool
	Calls int
}

func NewModelInformer(name string, ttl time.Duration) *ModelInformer {
	return &ModelInformer{name: name, Value: "100", TTL: ttl, Valid: true}
}
func (i *ModelInformer) SetClient(*rpc.Client)          {}
func (i *ModelInformer) Shutdown(context.Context) error { return nil }
func (i *ModelInformer) Name() string                   { return i.name }
func (i *ModelInformer) GetMetric(context.Context) *api.Metric {
	i.mu.Lock()
	defer i.mu.Unlock()
	i.Calls++
	m := &api.Metric{Name: i.name, Value: i.Value, Valid: i.Valid}
	m.SetTTL(i.TTL)
	return m
}

// NopTracer implements ipfscluster.Tracer.
type NopTracer struct{}

func (NopTracer) SetClient(*rpc.Client)          {}
func (NopTracer) Shutdown(context.Context) error { return nil }
