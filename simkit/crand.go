package simkit

import (
	crand "crypto/rand"
	"sync"

	"github.com/google/uuid"
)

type lockedRng struct {
	mu sync.Mutex
	r  *Rng
}

func (l *lockedRng) Read(b []byte) (int, error) {
	l.mu.Lock()
	defer l.mu.Unlock()
	return l.r.Read(b)
}

// seedCryptoRand makes crypto/rand.Reader and google/uuid deterministic for the
// duration of a plan. (uuid captures crypto/rand.Reader at package init, so
// it needs its own call.)
func seedCryptoRand(seed uint64) func() {
	old := crand.Reader
	src := &lockedRng{r: NewRng(seed ^ 0x5eedc0de5eedc0de)}
	crand.Reader = src
	uuid.SetRand(src)
	return func() {
		crand.Reader = old
		uuid.SetRand(nil)
	}
}
