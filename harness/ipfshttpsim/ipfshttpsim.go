// Package ipfshttpsim runs the real ipfshttp.Connector against a scripted,
// in-memory IPFS HTTP daemon installed as http.DefaultTransport (no socket),
// under the fake clock. Serves C16.
package ipfshttpsim

import (
	"context"
	"encoding/json"
	"errors"
	"fmt"
	"io"
	"net/http"
	"strings"
	"sync"
	"testing"
	"testing/synctest"
	"time"

	cid "github.com/ipfs/go-cid"
	"github.com/ipfs/ipfs-cluster/api"
	"github.com/ipfs/ipfs-cluster/ipfsconn/ipfshttp"
	rpc "github.com/libp2p/go-libp2p-gorpc"
	ma "github.com/multiformats/go-multiaddr"

	"verif/simkit"
)

// Beh is the scripted behaviour of the daemon for one HTTP request.
type Beh struct {
	Kind     string `json:"kind"`               // ok err_json err_plain transport stall garbage
	Progress int    `json:"progress,omitempty"` // pin/add: progress objects before the end
	GapMs    int    `json:"gap_ms,omitempty"`   // simulated time between stream objects
	End      string `json:"end,omitempty"`      // pin/add: final | stall | drop | trailer
	Same     bool   `json:"same,omitempty"`     // progress counter does not increase
	DelayMs  int    `json:"delay_ms,omitempty"` // before the response headers
}

type Step struct {
	Op      string `json:"op"` // pin unpin lscid daemon
	Cid     int    `json:"cid"`
	Direct  bool   `json:"direct,omitempty"`
	Depth   int    `json:"depth,omitempty"`
	Origins int    `json:"origins,omitempty"`
	From    int    `json:"from,omitempty"` // update source (+1)
	Mode    string `json:"mode,omitempty"` // daemon: "", recursive, direct
	Ls      *Beh   `json:"ls,omitempty"`
	Ls2     *Beh   `json:"ls2,omitempty"` // pin/ls of the update source
	Add     *Beh   `json:"add,omitempty"`
	Upd     *Beh   `json:"upd,omitempty"`
	Rm      *Beh   `json:"rm,omitempty"`
	DelayMs int    `json:"delay_ms,omitempty"`
}

type H struct{}

func (H) Name() string { return "ipfshttpsim" }

// drop_body / stall_body: the daemon (or a proxy in front of it) answers 200 and
// then the connection drops, or nothing more arrives, while the body is read.
// Whether the operation took effect in the daemon is the plan's choice (Progress
// odd = it did not): either way the transport failed and the call must say so.
var simpleKinds = []string{"ok", "err_json", "err_plain", "transport", "stall", "garbage", "drop_body", "stall_body"}
var addEnds = []string{"final", "stall", "drop", "trailer"}

// pin/update has no progress stream and the statement lists no "stalled"
// behaviour for it: a daemon that never answers pin/update is not generated.
var updKinds = []string{"ok", "err_json", "err_plain", "transport", "drop_body"}

// firstCall enumerates the (call kind x prior daemon state x behaviour) product
// systematically from an index, so that any contiguous seed range as long as the
// product covers it completely for the first call of the plan.
func firstCall(idx uint64) (prior string, st Step) {
	next := func(n int) int { v := int(idx % uint64(n)); idx /= uint64(n); return v }
	kind := next(6) // pin recursive, pin direct, pin depth, pin update, unpin, lscid
	prior = []string{"", "recursive", "direct"}[next(3)]
	st = Step{Cid: 0}
	switch kind {
	case 0, 1, 2, 3:
		st.Op = "pin"
		st.Direct = kind == 1
		if kind == 2 {
			st.Depth = 2
		}
		if kind == 3 {
			st.From = 2
		}
		st.Origins = next(2) * 2
		ls := next(len(simpleKinds))
		st.Ls = &Beh{Kind: simpleKinds[ls]}
		if st.Ls.Kind == "err_plain" {
			st.Ls.Progress = int(idx % 3) // not consumed: the variant rides on the next choice
		}
		a := next(6)
		switch a {
		case 0, 1, 2, 3:
			st.Add = &Beh{Kind: "ok", Progress: next(4), GapMs: []int{0, 200, 1500, 20000}[next(4)], End: addEnds[a], Same: next(2) == 1}
		case 4:
			st.Add = &Beh{Kind: "err_json"}
		case 5:
			st.Add = &Beh{Kind: []string{"err_plain", "transport", "stall"}[next(3)]}
		}
		if kind == 3 {
			st.Ls2 = &Beh{Kind: simpleKinds[next(len(simpleKinds))]}
			st.Upd = &Beh{Kind: updKinds[next(len(updKinds))]}
		}
	case 4:
		st.Op = "unpin"
		st.Rm = &Beh{Kind: simpleKinds[next(5)]}
	case 5:
		st.Op = "lscid"
		st.Direct = next(2) == 1
		st.Ls = &Beh{Kind: simpleKinds[next(len(simpleKinds))]}
		if st.Ls.Kind == "err_plain" {
			st.Ls.Progress = next(3)
		}
	}
	return prior, st
}

func (H) Generate(prop, tier string, seed uint64) *simkit.Plan {
	r := simkit.NewRng(seed)
	p := &simkit.Plan{Property: prop, Harness: "ipfshttpsim", Seed: seed, RTSeed: r.Uint64() % 1000}
	p.SetKnob("pin_timeout_ms", int64([]int{1000, 5000, 30000, 120000}[r.Intn(4)]))
	p.SetKnob("unpin_timeout_ms", int64([]int{2000, 60000, 3 * 3600 * 1000}[r.Intn(3)]))
	p.SetKnob("req_timeout_ms", int64([]int{3000, 60000, 300000}[r.Intn(3)]))
	// prior state of the update source for the systematic first call
	prior, st := firstCall(seed)
	if prior != "" {
		p.AddStep(Step{Op: "daemon", Cid: 0, Mode: prior})
	}
	if st.From > 0 {
		p.AddStep(Step{Op: "daemon", Cid: st.From - 1, Mode: []string{"", "recursive", "direct"}[r.Intn(3)]})
	}
	p.AddStep(st)
	// then a short random history over 3 CIDs
	n := r.Range(0, 5)
	rb := func(kinds []string, okBias int) *Beh {
		if r.Intn(10) < okBias {
			return &Beh{Kind: "ok"}
		}
		return &Beh{Kind: kinds[r.Intn(len(kinds))], DelayMs: r.Pick(3, 1) * r.Range(0, 3000), Progress: r.Intn(6)}
	}
	for i := 0; i < n; i++ {
		s := Step{Cid: r.Intn(3), DelayMs: r.Range(0, 2000)}
		switch r.Pick(5, 3, 2, 2) {
		case 0:
			s.Op = "pin"
			s.Direct = r.Chance(0.3)
			if r.Chance(0.15) {
				s.Depth = r.Range(1, 3)
			}
			s.Origins = r.Pick(3, 1, 1)
			if r.Chance(0.3) {
				s.From = 1 + r.Intn(3)
				s.Ls2 = rb(simpleKinds, 7)
				s.Upd = rb(updKinds, 6)
			}
			s.Ls = rb(simpleKinds, 7)
			if r.Chance(0.6) {
				s.Add = &Beh{Kind: "ok", Progress: r.Range(0, 5), GapMs: []int{0, 100, 900, 4000, 40000}[r.Intn(5)], End: addEnds[r.Pick(5, 2, 2, 2)], Same: r.Chance(0.2)}
			} else {
				s.Add = rb([]string{"err_json", "err_plain", "transport", "stall"}, 0)
			}
		case 1:
			s.Op = "unpin"
			s.Rm = rb([]string{"ok", "err_json", "err_plain", "transport", "stall", "drop_body", "stall_body"}, 6)
		case 2:
			s.Op = "lscid"
			s.Direct = r.Chance(0.4)
			s.Ls = rb(simpleKinds, 6)
		case 3:
			s.Op = "daemon"
			s.Mode = []string{"", "recursive", "direct"}[r.Intn(3)]
		}
		p.AddStep(s)
	}
	return p
}

// ------------------------------------------------------------------ scripted daemon

type request struct {
	At   time.Time
	Path string
	Args []string
	Q    map[string]string
	Seq  int
}

type daemon struct {
	run  *simkit.Run
	mu   sync.Mutex
	pins map[string]string
	reqs []request
	// behaviour queues per endpoint for the call in progress
	ls, add, upd, rm []*Beh
	lastProgressAt   time.Time // when the daemon last sent increasing progress (or the response started)
}

type sinfo struct{}

func (s *sinfo) SendInformersMetrics(ctx context.Context, in struct{}, out *[]*api.Metric) error {
	return nil
}

func jsonResp(req *http.Request, code int, body string, trailer http.Header) *http.Response {
	return &http.Response{StatusCode: code, Status: fmt.Sprintf("%d", code), Proto: "HTTP/1.1", ProtoMajor: 1, ProtoMinor: 1,
		Header: http.Header{"Content-Type": []string{"application/json"}}, Body: io.NopCloser(strings.NewReader(body)), Request: req, Trailer: trailer}
}

// brokenBody hands out the first half of a response body and then fails like a
// dropped connection, or blocks until the request is cancelled.
type brokenBody struct {
	ctx   context.Context
	data  []byte
	stall bool
}

func (b *brokenBody) Read(p []byte) (int, error) {
	if len(b.data) > 0 {
		n := copy(p, b.data)
		b.data = b.data[n:]
		return n, nil
	}
	if b.stall {
		<-b.ctx.Done()
		return 0, b.ctx.Err()
	}
	return 0, io.ErrUnexpectedEOF
}

func (b *brokenBody) Close() error { return nil }

func pop(q *[]*Beh) *Beh {
	if len(*q) == 0 {
		return &Beh{Kind: "ok"}
	}
	b := (*q)[0]
	*q = (*q)[1:]
	if b == nil {
		return &Beh{Kind: "ok"}
	}
	return b
}

func sleepCtx(ctx context.Context, d time.Duration) error {
	if d <= 0 {
		return ctx.Err()
	}
	t := time.NewTimer(d)
	defer t.Stop()
	select {
	case <-t.C:
		return nil
	case <-ctx.Done():
		return ctx.Err()
	}
}

// streamBody is a response body fed object by object at simulated-time gaps.
type streamBody struct {
	ctx    context.Context
	ch     chan []byte
	errCh  chan error
	buf    []byte
	closed chan struct{}
	once   sync.Once
}

func (s *streamBody) Read(p []byte) (int, error) {
	if len(s.buf) == 0 {
		select {
		case b, ok := <-s.ch:
			if !ok {
				select {
				case err := <-s.errCh:
					return 0, err
				default:
					return 0, io.EOF
				}
			}
			s.buf = b
		case <-s.ctx.Done():
			return 0, s.ctx.Err()
		case <-s.closed:
			return 0, errors.New("read on closed body")
		}
	}
	n := copy(p, s.buf)
	s.buf = s.buf[n:]
	return n, nil
}

func (s *streamBody) Close() error { s.once.Do(func() { close(s.closed) }); return nil }

func (d *daemon) RoundTrip(req *http.Request) (*http.Response, error) {
	ctx := req.Context()
	path := strings.TrimPrefix(req.URL.Path, "/api/v0/")
	q := req.URL.Query()
	args := q["arg"]
	rq := request{At: time.Now(), Path: path, Args: args, Q: map[string]string{}}
	for k := range q {
		rq.Q[k] = q.Get(k)
	}
	d.mu.Lock()
	rq.Seq = d.run.Ev("daemon", "request", "%s?%s", path, req.URL.RawQuery)
	d.reqs = append(d.reqs, rq)
	var b *Beh
	switch path {
	case "pin/ls":
		b = pop(&d.ls)
	case "pin/add":
		b = pop(&d.add)
	case "pin/update":
		b = pop(&d.upd)
	case "pin/rm":
		b = pop(&d.rm)
	default:
		b = &Beh{Kind: "ok"}
	}
	d.mu.Unlock()
	if b.Kind != "ok" {
		d.run.Fault(path + ":" + b.Kind)
	}
	if err := sleepCtx(ctx, time.Duration(b.DelayMs)*time.Millisecond); err != nil {
		return nil, err
	}
	switch b.Kind {
	case "transport":
		return nil, errors.New("scripted daemon: connection refused")
	case "stall":
		<-ctx.Done()
		return nil, ctx.Err()
	case "err_plain":
		// a failure that is not an IPFS error object: a proxy's HTML page, the API's
		// plain-text refusal, an empty body
		switch b.Progress % 3 {
		case 1:
			return jsonResp(req, 403, "403 - Forbidden\n", nil), nil
		case 2:
			return jsonResp(req, 500, "", nil), nil
		}
		return jsonResp(req, 502, "<html>bad gateway</html>", nil), nil
	case "garbage":
		return jsonResp(req, 200, "{not json", nil), nil
	}
	if b.Kind == "drop_body" || b.Kind == "stall_body" {
		var resp *http.Response
		if b.Progress%2 == 1 {
			// the operation never happened
			resp = jsonResp(req, 200, `{"Pins":[]}`, nil)
		} else {
			ok := *b
			ok.Kind = "ok"
			d.mu.Lock()
			switch path {
			case "pin/ls":
				d.ls = append([]*Beh{&ok}, d.ls...)
			case "pin/update":
				d.upd = append([]*Beh{&ok}, d.upd...)
			case "pin/rm":
				d.rm = append([]*Beh{&ok}, d.rm...)
			default:
				d.add = append([]*Beh{&ok}, d.add...)
			}
			d.reqs = d.reqs[:len(d.reqs)-1]
			d.mu.Unlock()
			r2, err := d.RoundTrip(req)
			if err != nil {
				return nil, err
			}
			resp = r2
		}
		full, _ := io.ReadAll(resp.Body)
		resp.StatusCode, resp.Status = 200, "200"
		resp.Body = &brokenBody{ctx: ctx, data: full[:len(full)/2], stall: b.Kind == "stall_body"}
		return resp, nil
	}
	d.mu.Lock()
	defer d.mu.Unlock()
	arg0 := ""
	if len(args) > 0 {
		arg0 = args[0]
	}
	ipfsErr := func(msg string) (*http.Response, error) {
		e, _ := json.Marshal(map[string]interface{}{"Message": msg, "Code": 0, "Type": "error"})
		return jsonResp(req, 500, string(e), nil), nil
	}
	switch path {
	case "pin/ls":
		if b.Kind == "err_json" {
			return ipfsErr("scripted daemon: internal error listing pins")
		}
		typ := q.Get("type")
		if arg0 == "" {
			keys := map[string]map[string]string{}
			for k, v := range d.pins {
				if typ == "" || typ == "all" || typ == v {
					keys[k] = map[string]string{"Type": v}
				}
			}
			out, _ := json.Marshal(map[string]interface{}{"Keys": keys})
			return jsonResp(req, 200, string(out), nil), nil
		}
		have := d.pins[arg0]
		if have == "" || (typ != "" && typ != "all" && typ != have) {
			return ipfsErr(fmt.Sprintf("path '%s' is not pinned", arg0))
		}
		out, _ := json.Marshal(map[string]interface{}{"Keys": map[string]map[string]string{arg0: {"Type": have}}})
		return jsonResp(req, 200, string(out), nil), nil
	case "swarm/connect":
		return jsonResp(req, 200, `{"Strings":["connect success"]}`, nil), nil
	case "pin/rm":
		if b.Kind == "err_json" {
			return ipfsErr("scripted daemon: datastore error")
		}
		if d.pins[arg0] == "" {
			return ipfsErr("not pinned or pinned indirectly")
		}
		delete(d.pins, arg0)
		d.run.Ev("daemon", "effect", "unpinned %s", short(arg0))
		out, _ := json.Marshal(map[string]interface{}{"Pins": []string{arg0}})
		return jsonResp(req, 200, string(out), nil), nil
	case "pin/update":
		if b.Kind == "err_json" {
			return ipfsErr("scripted daemon: update failed")
		}
		if len(args) != 2 {
			return ipfsErr("two arguments required")
		}
		if d.pins[args[0]] != "recursive" {
			return ipfsErr("'from' cid was not recursively pinned already")
		}
		d.pins[args[1]] = "recursive"
		if q.Get("unpin") != "false" {
			delete(d.pins, args[0])
		}
		d.run.Ev("daemon", "effect", "updated %s -> %s unpin=%s", short(args[0]), short(args[1]), q.Get("unpin"))
		out, _ := json.Marshal(map[string]interface{}{"Pins": []string{args[0], args[1]}})
		return jsonResp(req, 200, string(out), nil), nil
	case "pin/add":
		if b.Kind == "err_json" {
			return ipfsErr("scripted daemon: merkledag: not found")
		}
		want := "recursive"
		if q.Get("recursive") == "false" {
			want = "direct"
		}
		if d.pins[arg0] == "recursive" && want == "direct" {
			return ipfsErr(fmt.Sprintf("pin: %s already pinned recursively", arg0))
		}
		body := &streamBody{ctx: ctx, ch: make(chan []byte), errCh: make(chan error, 1), closed: make(chan struct{})}
		trailer := http.Header{}
		d.lastProgressAt = time.Now()
		go func() {
			send := func(v interface{}) bool {
				o, _ := json.Marshal(v)
				select {
				case body.ch <- append(o, '\n'):
					return true
				case <-ctx.Done():
					return false
				case <-body.closed:
					return false
				}
			}
			gap := time.Duration(b.GapMs) * time.Millisecond
			for i := 1; i <= b.Progress; i++ {
				if sleepCtx(ctx, gap) != nil {
					return
				}
				pv := i
				if b.Same {
					pv = 1
				}
				if !send(map[string]interface{}{"Progress": pv}) {
					return
				}
				if !b.Same || i == 1 {
					d.mu.Lock()
					d.lastProgressAt = time.Now()
					d.mu.Unlock()
				}
			}
			if sleepCtx(ctx, gap) != nil {
				return
			}
			switch b.End {
			case "stall":
				<-ctx.Done()
			case "drop":
				body.errCh <- errors.New("scripted daemon: connection reset by peer")
				close(body.ch)
			case "trailer":
				// go-ipfs-cmds: an error after streaming started ends the body
				// cleanly and is reported in the X-Stream-Error trailer.
				trailer.Set("X-Stream-Error", "scripted daemon: pin: context deadline exceeded")
				close(body.ch)
			default:
				// the effect lands with the final object, if the caller is still there
				d.mu.Lock()
				if ctx.Err() == nil {
					d.pins[arg0] = want
					d.run.Ev("daemon", "effect", "pinned %s %s", short(arg0), want)
				}
				d.mu.Unlock()
				if send(map[string]interface{}{"Pins": []string{arg0}}) {
					close(body.ch)
				}
			}
		}()
		// (as net/http's client hands it over: the announced trailer keys are moved
		// from the "Trailer" header into Response.Trailer, the header itself is gone)
		return &http.Response{StatusCode: 200, Status: "200 OK", Proto: "HTTP/1.1", ProtoMajor: 1, ProtoMinor: 1,
			Header: http.Header{"Content-Type": []string{"application/json"}}, Body: body, Request: req, Trailer: trailer}, nil
	}
	return jsonResp(req, 200, "{}", nil), nil
}

// okWithin: the daemon behaves and answers before the connector's own timeout.
func okWithin(b *Beh, timeout time.Duration) bool {
	return b == nil || (b.Kind == "ok" && time.Duration(b.DelayMs)*time.Millisecond < timeout-10*time.Millisecond)
}

func short(s string) string {
	if len(s) > 8 {
		return s[len(s)-8:]
	}
	return s
}

// ------------------------------------------------------------------ execution

func (H) Execute(t *testing.T, plan *simkit.Plan, run *simkit.Run) {
	run.Begin()
	d := &daemon{run: run, pins: map[string]string{}}
	old := http.DefaultTransport
	http.DefaultTransport = d
	defer func() { http.DefaultTransport = old }()

	cfg := &ipfshttp.Config{}
	cfg.Default()
	cfg.NodeAddr, _ = ma.NewMultiaddr("/ip4/127.0.0.1/tcp/5001")
	cfg.ConnectSwarmsDelay = 0
	cfg.PinTimeout = time.Duration(plan.Knob("pin_timeout_ms", 5000)) * time.Millisecond
	cfg.UnpinTimeout = time.Duration(plan.Knob("unpin_timeout_ms", 60000)) * time.Millisecond
	cfg.IPFSRequestTimeout = time.Duration(plan.Knob("req_timeout_ms", 60000)) * time.Millisecond
	conn, err := ipfshttp.NewConnector(cfg)
	if err != nil {
		panic(err)
	}
	srv := rpc.NewServer(nil, "/sim/rpc")
	srv.RegisterName("Cluster", &sinfo{})
	conn.SetClient(rpc.NewClientWithServer(nil, "/sim/rpc", srv))
	defer func() {
		conn.Shutdown(context.Background())
		synctest.Wait()
	}()
	cids := []cid.Cid{simkit.TestCid(0), simkit.TestCid(1), simkit.TestCid(2)}
	ctx := context.Background()

	for _, raw := range plan.Steps {
		var s Step
		if err := json.Unmarshal(raw, &s); err != nil {
			panic(err)
		}
		if s.DelayMs > 0 {
			time.Sleep(time.Duration(s.DelayMs) * time.Millisecond)
		}
		run.Step()
		c := cids[s.Cid%3]
		if s.Op == "daemon" {
			d.mu.Lock()
			if s.Mode == "" {
				delete(d.pins, c.String())
			} else {
				d.pins[c.String()] = s.Mode
			}
			d.mu.Unlock()
			run.Ev("sim", "daemon", "cid%d := %q", s.Cid%3, s.Mode)
			continue
		}
		d.mu.Lock()
		d.ls, d.add, d.upd, d.rm = nil, nil, nil, nil
		if s.Ls != nil {
			d.ls = append(d.ls, s.Ls)
		}
		if s.Ls2 != nil {
			d.ls = append(d.ls, s.Ls2)
		}
		if s.Add != nil {
			d.add = append(d.add, s.Add)
		}
		if s.Upd != nil {
			d.upd = append(d.upd, s.Upd)
		}
		if s.Rm != nil {
			d.rm = append(d.rm, s.Rm)
		}
		reqStart := len(d.reqs)
		d.lastProgressAt = time.Time{}
		priorMode := d.pins[c.String()]
		var fromC cid.Cid
		fromPrior := ""
		if s.From > 0 {
			fromC = cids[(s.From-1)%3]
			fromPrior = d.pins[fromC.String()]
		}
		d.mu.Unlock()
		run.Op()
		t0 := time.Now()

		switch s.Op {
		case "pin":
			pin := api.PinCid(c)
			want := "recursive"
			if s.Direct {
				pin.Mode, pin.MaxDepth = api.PinModeDirect, 0
				want = "direct"
			} else if s.Depth > 0 {
				pin.MaxDepth = api.PinDepth(s.Depth)
			}
			for i := 0; i < s.Origins; i++ {
				a, _ := ma.NewMultiaddr(fmt.Sprintf("/ip4/10.1.1.%d/tcp/4001/p2p/%s", i+1, simkit.TestPeer(800+i).Pretty()))
				pin.Origins = append(pin.Origins, a)
			}
			if s.From > 0 && !fromC.Equals(c) {
				pin.PinUpdate = fromC
			}
			err := conn.Pin(ctx, pin)
			synctest.Wait()
			el := time.Since(t0)
			d.mu.Lock()
			have := d.pins[c.String()]
			reqs := append([]request{}, d.reqs[reqStart:]...)
			lastProg := d.lastProgressAt
			fromNow := d.pins[fromC.String()]
			d.mu.Unlock()
			run.Ev("client", "pin", "cid%d want=%s prior=%q update_from=%v -> err=%v daemon=%q took=%s", s.Cid%3, want, priorMode, s.From, err, have, el)
			var mutating []request
			for _, r := range reqs {
				if r.Path == "pin/add" || r.Path == "pin/update" {
					mutating = append(mutating, r)
				}
			}
			if err == nil && have != want {
				sig := "other"
				if s.Add != nil && s.Add.End == "trailer" && len(mutating) > 0 && mutating[0].Path == "pin/add" {
					sig = "stream_error_trailer"
				}
				run.Violate("C16/success_but_not_pinned", sig, "Pin(cid%d, %s) returned nil but the daemon holds it as %q (pin/add behaviour %+v)", s.Cid%3, want, have, s.Add)
			}
			if priorMode == want && okWithin(s.Ls, cfg.IPFSRequestTimeout) {
				run.Probe("already_pinned_as_asked")
				if len(mutating) > 0 {
					run.Violate("C16/request_when_already_pinned", "", "cid%d was already pinned %s, yet %s was requested", s.Cid%3, want, mutating[0].Path)
				}
				// nothing at all besides the probe (requests nothing when the CID is
				// already pinned as asked): not a dial of the origins either
				for _, r := range reqs {
					if r.Path != "pin/ls" && r.Path != "pin/add" && r.Path != "pin/update" {
						run.Violate("C16/request_when_already_pinned", "other", "cid%d was already pinned %s, yet besides pin/ls the daemon was asked %s (origins: %d)", s.Cid%3, want, r.Path, s.Origins)
						break
					}
				}
				if err != nil {
					run.Violate("C16/error_when_already_pinned", "", "cid%d was already pinned %s but Pin failed: %v", s.Cid%3, want, err)
				}
			}
			// a failed essential request must surface as an error
			for _, r := range mutating {
				var b *Beh
				if r.Path == "pin/add" {
					b = s.Add
				} else {
					b = s.Upd
				}
				failed := b != nil && (b.Kind != "ok" || (r.Path == "pin/add" && b.End != "final" && b.End != ""))
				if failed && err == nil {
					run.Violate("C16/daemon_failure_reported_as_success", fmt.Sprintf("%s:%s/%s", r.Path, b.Kind, b.End), "%s failed in the daemon (%+v) but Pin(cid%d) returned nil", r.Path, b, s.Cid%3)
				}
			}
			if s.Ls != nil && (s.Ls.Kind == "transport" || s.Ls.Kind == "stall" || s.Ls.Kind == "drop_body" || s.Ls.Kind == "stall_body") && err == nil {
				run.Violate("C16/transport_failure_reported_as_success", "pin/ls", "pin/ls could not reach the daemon (%s) but Pin returned nil", s.Ls.Kind)
			}
			if s.Ls != nil && s.Ls.Kind == "err_plain" && err == nil {
				// the status probe failed with something that is not an IPFS answer
				// (proxy page, refusal, empty 500): a daemon failure, to be reported
				run.Violate("C16/daemon_failure_reported_as_success", "pin/ls:err_plain", "pin/ls was answered with a non-JSON failure (variant %d) but Pin returned nil", s.Ls.Progress%3)
			}
			// pin/update discipline
			for _, r := range mutating {
				if r.Path != "pin/update" {
					continue
				}
				run.Probe("pin_update_used")
				if fromPrior != "recursive" {
					run.Violate("C16/update_without_recursive_source", "", "pin/update was used although the source was %q in the daemon", fromPrior)
				}
				if r.Q["unpin"] != "false" {
					run.Violate("C16/update_unpins_source", "", "pin/update was sent with unpin=%q", r.Q["unpin"])
				}
				if fromPrior == "recursive" && fromNow != "recursive" {
					run.Violate("C16/update_unpins_source", "", "the update source is no longer pinned after pin/update")
				}
			}
			// no-progress watchdog: gives up within 2 x PinTimeout + 1s of the last progress
			if s.Add != nil && s.Add.Kind == "ok" && (s.Add.End == "stall") && len(mutating) > 0 && mutating[0].Path == "pin/add" {
				run.Probe("stalled_pin")
				if err == nil {
					run.Violate("C16/stalled_pin_reported_as_success", "", "the progress stream stalled but Pin returned nil")
				}
				limit := 2*cfg.PinTimeout + time.Second
				if since := time.Now().Sub(lastProg); !lastProg.IsZero() && since > limit {
					run.Violate("C16/watchdog_too_late", "", "Pin gave up %s after the last progress; the bound is 2 x PinTimeout + 1s = %s", since, limit)
				}
			}
			if s.Add != nil && s.Add.Kind == "stall" && len(mutating) > 0 && mutating[0].Path == "pin/add" {
				run.Probe("stalled_before_headers")
				if since := time.Since(mutating[0].At); since > 2*cfg.PinTimeout+time.Second {
					run.Violate("C16/watchdog_too_late", "headers", "Pin gave up %s after sending a pin/add that was never answered (PinTimeout %s)", since, cfg.PinTimeout)
				}
			}
		case "unpin":
			err := conn.Unpin(ctx, c)
			synctest.Wait()
			d.mu.Lock()
			have := d.pins[c.String()]
			d.mu.Unlock()
			run.Ev("client", "unpin", "cid%d prior=%q -> err=%v daemon=%q", s.Cid%3, priorMode, err, have)
			if err == nil && have != "" {
				run.Violate("C16/unpin_success_but_pinned", "", "Unpin(cid%d) returned nil but the daemon still holds it (%s)", s.Cid%3, have)
			}
			if priorMode == "" && okWithin(s.Rm, cfg.UnpinTimeout) {
				run.Probe("unpin_absent")
				if err != nil {
					run.Violate("C16/unpin_absent_is_error", "", "Unpin of a CID that is not pinned must succeed, got %v", err)
				}
			}
			if s.Rm != nil && s.Rm.Kind != "ok" && err == nil && have != "" {
				run.Violate("C16/daemon_failure_reported_as_success", "pin/rm:"+s.Rm.Kind, "pin/rm failed (%s) but Unpin returned nil", s.Rm.Kind)
			}
			if s.Rm != nil && s.Rm.Kind != "ok" && s.Rm.Kind != "garbage" && err == nil {
				run.Violate("C16/daemon_failure_reported_as_success", "pin/rm:"+s.Rm.Kind, "pin/rm failed in the daemon (%s) but Unpin returned nil", s.Rm.Kind)
			}
		case "lscid":
			pin := api.PinCid(c)
			want := "recursive"
			if s.Direct {
				pin.Mode, pin.MaxDepth = api.PinModeDirect, 0
				want = "direct"
			}
			st, err := conn.PinLsCid(ctx, pin)
			synctest.Wait()
			run.Ev("client", "lscid", "cid%d type=%s prior=%q -> %v err=%v", s.Cid%3, want, priorMode, st, err)
			if okWithin(s.Ls, cfg.IPFSRequestTimeout) {
				run.Probe("lscid_ok")
				pinned := st.IsPinned(pin.MaxDepth)
				if pinned != (priorMode == want) || err != nil {
					run.Violate("C16/lscid_wrong", "", "PinLsCid(cid%d, %s): daemon holds %q, connector says %v (err %v)", s.Cid%3, want, priorMode, st, err)
				}
			} else if s.Ls != nil && (s.Ls.Kind == "transport" || s.Ls.Kind == "stall" || s.Ls.Kind == "garbage" || s.Ls.Kind == "drop_body" || s.Ls.Kind == "stall_body") {
				if err == nil {
					run.Violate("C16/transport_failure_reported_as_success", "pin/ls", "pin/ls failed (%s) but PinLsCid returned %v without error", s.Ls.Kind, st)
				}
			} else if s.Ls != nil && s.Ls.Kind == "err_plain" {
				run.Probe("lscid_non_json_failure")
				if err == nil {
					run.Violate("C16/daemon_failure_reported_as_success", "pin/ls:err_plain", "pin/ls was answered with a non-JSON failure (variant %d) but PinLsCid returned %v without error", s.Ls.Progress%3, st)
				}
			}
		}
	}
}
