// Package membersim runs whole cluster peers - the real ipfscluster.Cluster on
// the real consensus/raft component (hashicorp/raft, go-libp2p-raft, BoltDB and
// the file snapshot store on tmpfs), the real pstoremgr, the real allocator,
// go-libp2p-gorpc over libp2p basic hosts on mocknet and a real dual DHT -
// through membership histories: bootstrap of 1..4 peers, Join, PeerAdd,
// PeerRemove (leader, follower, self, absent), leave on shutdown, graceful
// restart, crash + restart, partitions, all interleaved with pin/unpin. The
// tracker, the IPFS connector, the monitor and the informer are models.
// Serves C17.
package membersim

import (
	"context"
	"encoding/json"
	"errors"
	"fmt"
	"os"
	"os/exec"
	"path/filepath"
	"reflect"
	"runtime"
	"sort"
	"strings"
	"testing"
	"testing/synctest"
	"time"
	"unsafe"

	ds "github.com/ipfs/go-datastore"
	dssync "github.com/ipfs/go-datastore/sync"
	ipfscluster "github.com/ipfs/ipfs-cluster"
	"github.com/ipfs/ipfs-cluster/allocator/descendalloc"
	"github.com/ipfs/ipfs-cluster/api"
	"github.com/ipfs/ipfs-cluster/consensus/raft"
	host "github.com/libp2p/go-libp2p-core/host"
	peer "github.com/libp2p/go-libp2p-core/peer"
	dual "github.com/libp2p/go-libp2p-kad-dht/dual"
	ma "github.com/multiformats/go-multiaddr"

	"verif/simkit"
)

type Step struct {
	Op      string `json:"op"` // pin unpin join peer_add peer_rm stop start crash cut isolate heal wait
	At      int    `json:"at,omitempty"`
	Slot    int    `json:"slot,omitempty"`
	Cid     int    `json:"cid,omitempty"`
	RMin    int    `json:"rmin,omitempty"`
	RMax    int    `json:"rmax,omitempty"`
	Leave   bool   `json:"leave,omitempty"`
	A       int    `json:"a,omitempty"`
	B       int    `json:"b,omitempty"`
	Ms      int    `json:"ms,omitempty"`
	Overlap bool   `json:"overlap,omitempty"` // do not wait for this pin/unpin before the next step
}

type H struct{}

func (H) Name() string { return "membersim" }

func (H) Generate(prop, tier string, seed uint64) *simkit.Plan {
	if prop != "C17" {
		panic("membersim: no generator for " + prop)
	}
	return genC17(tier, seed)
}

func (H) Execute(t *testing.T, plan *simkit.Plan, run *simkit.Run) {
	run.Begin()
	execC17(plan, run)
}

const informerName = "freespace"

// ------------------------------------------------------------------ generator

func one(r *simkit.Rng, v ...int) int { return v[r.Intn(len(v))] }

func genC17(tier string, seed uint64) *simkit.Plan {
	r := simkit.NewRng(seed)
	p := &simkit.Plan{Property: "C17", Harness: "membersim", Seed: seed, RTSeed: r.Uint64() % 1000}
	slots := r.Range(2, 4)
	init := r.Range(1, slots)
	p.SetKnob("slots", int64(slots))
	p.SetKnob("init", int64(init))
	fp := [][2]int{{-1, -1}, {1, 1}, {1, 2}, {2, 2}, {2, 3}, {1, 3}}[r.Intn(6)]
	p.SetKnob("rmin", int64(fp[0]))
	p.SetKnob("rmax", int64(fp[1]))
	if r.Chance(0.2) {
		p.SetKnob("norepin", 1)
	}
	p.SetKnob("watch_ms", int64(one(r, 500, 1000, 3000)))
	p.SetKnob("heartbeat_ms", int64(one(r, 100, 200, 400)))
	p.SetKnob("snap_threshold", int64(one(r, 2, 8, 64)))
	p.SetKnob("trailing", int64(one(r, 0, 2, 16)))
	p.SetKnob("commit_retries", int64(r.Intn(3)))
	p.SetKnob("latency_ms", int64(one(r, 1, 2, 10, 40)))
	p.SetKnob("backups_rotate", int64(one(r, 1, 1, 2, 3, 6)))
	// churn: the same slot leaves and comes back again and again (its data
	// folder is cleaned into rotated backups each time)
	churn := r.Chance(0.25)
	churnSlot := r.Intn(slots)
	ncids := r.Range(2, 6)
	p.SetKnob("ncids", int64(ncids))
	faulty := r.Chance(0.5)
	// one directed trap per plan in a third of the faulty plans: the leader loses
	// its majority and is at once asked to remove itself. Re-pinning is off in
	// these plans, otherwise PeerRemove spends the leader's lease re-allocating.
	leaderTrap := faulty && r.Chance(0.35)
	if leaderTrap {
		p.SetKnob("norepin", 1)
	}

	// a rough belief of who is a member, only to bias the generator towards
	// meaningful steps; the executor keeps the real model
	member := map[int]bool{}
	up := map[int]bool{}
	for i := 0; i < init; i++ {
		member[i], up[i] = true, true
	}
	members := func() []int {
		var l []int
		for i := 0; i < slots; i++ {
			if member[i] && up[i] {
				l = append(l, i)
			}
		}
		return l
	}
	pickMember := func() int {
		l := members()
		if len(l) == 0 || r.Chance(0.05) {
			return r.Intn(slots)
		}
		return l[r.Intn(len(l))]
	}
	pinStep := func() Step {
		st := Step{Op: "pin", At: pickMember(), Cid: r.Intn(ncids)}
		if r.Chance(0.3) {
			st.Op = "unpin"
		}
		if r.Chance(0.3) {
			f := [][2]int{{-1, -1}, {1, 1}, {1, 2}, {2, 2}, {2, 3}}[r.Intn(5)]
			st.RMin, st.RMax = f[0], f[1]
		}
		return st
	}
	for i, n := 0, r.Range(1, 6); i < n; i++ {
		p.AddStep(pinStep())
	}
	n := r.Range(4, 14)
	if tier == "thorough" {
		n = r.Range(4, 30)
	}
	trapAt := -1
	if leaderTrap {
		trapAt = r.Intn(n)
	}
	for i := 0; i < n; i++ {
		if i == trapAt && len(members()) >= 2 {
			p.AddStep(Step{Op: "isolate", Slot: 100})
			if r.Chance(0.5) {
				p.AddStep(Step{Op: "wait", Ms: r.Range(1, 80)})
			}
			p.AddStep(Step{Op: "peer_rm", At: 100, Slot: 100})
			p.AddStep(Step{Op: "wait", Ms: r.Range(100, 3000)})
			p.AddStep(Step{Op: "heal"})
			continue
		}
		x := r.Intn(100)
		switch {
		case x < 22:
			st := pinStep()
			st.Overlap = r.Chance(0.4)
			p.AddStep(st)
		case x < 42: // join / add
			var non []int
			for s := 0; s < slots; s++ {
				if !member[s] {
					non = append(non, s)
				}
			}
			slot := r.Intn(slots)
			if len(non) > 0 && r.Chance(0.85) {
				slot = non[r.Intn(len(non))]
			}
			if churn && !member[churnSlot] {
				slot = churnSlot
			}
			op := "join"
			if r.Chance(0.35) {
				op = "peer_add"
			}
			// Ms: how long the fresh peer has been running (waiting for a leader, polling
			// twice a second) when it is added
			p.AddStep(Step{Op: op, At: pickMember(), Slot: slot, Ms: one(r, 0, 0, 100, 300, 420, 460, 480, 495, 700, 960)})
			member[slot], up[slot] = true, true
		case x < 62: // remove
			slot := pickMember()
			if r.Chance(0.15) {
				slot = r.Intn(slots)
			}
			if churn && member[churnSlot] && up[churnSlot] && r.Chance(0.8) {
				slot = churnSlot
			}
			at := pickMember()
			if r.Chance(0.25) {
				at = slot // removing oneself
			}
			p.AddStep(Step{Op: "peer_rm", At: at, Slot: slot})
			if len(members()) > 1 {
				member[slot] = false
				up[slot] = false
			}
		case x < 70:
			slot := pickMember()
			lv := r.Chance(0.4)
			p.AddStep(Step{Op: "stop", Slot: slot, Leave: lv})
			up[slot] = false
			if lv && len(members()) > 0 {
				member[slot] = false
			}
			if r.Chance(0.7) {
				for k, m := 0, r.Intn(3); k < m; k++ {
					p.AddStep(pinStep())
				}
				p.AddStep(Step{Op: "start", Slot: slot})
				if member[slot] {
					up[slot] = true
				}
			}
		case x < 74 && faulty:
			slot := pickMember()
			p.AddStep(Step{Op: "crash", Slot: slot})
			up[slot] = false
			for k, m := 0, r.Intn(3); k < m; k++ {
				p.AddStep(pinStep())
			}
			if r.Chance(0.8) {
				p.AddStep(Step{Op: "start", Slot: slot})
				up[slot] = true
			}
		case x < 84 && faulty && r.Chance(0.6):
			// directed at the two places where a membership call can give the wrong
			// answer: a member whose view of the peerset lags (it is cut off while the
			// others change the membership, then it is asked to undo that change), and
			// a leader that has just lost its majority and is asked to remove itself
			// (At/Slot 100 = "whoever leads at that moment")
			if r.Chance(0.5) {
				x := pickMember()
				p.AddStep(Step{Op: "isolate", Slot: x})
				var non []int
				for s := 0; s < slots; s++ {
					if !member[s] {
						non = append(non, s)
					}
				}
				others := members()
				via := x
				for _, m := range others {
					if m != x {
						via = m
					}
				}
				if len(non) > 0 && via != x && r.Chance(0.6) {
					y := non[r.Intn(len(non))]
					p.AddStep(Step{Op: "join", At: via, Slot: y})
					p.AddStep(Step{Op: "peer_rm", At: x, Slot: y})
					member[y], up[y] = true, true
				} else if via != x {
					var y = -1
					for _, m := range others {
						if m != x && m != via {
							y = m
						}
					}
					if y >= 0 {
						p.AddStep(Step{Op: "peer_rm", At: via, Slot: y})
						p.AddStep(Step{Op: "peer_add", At: x, Slot: y})
					}
				}
				p.AddStep(Step{Op: "wait", Ms: r.Range(100, 3000)})
				p.AddStep(Step{Op: "heal"})
			} else {
				p.AddStep(Step{Op: "isolate", Slot: 100})
				if r.Chance(0.5) {
					p.AddStep(Step{Op: "wait", Ms: r.Range(1, 300)})
				}
				p.AddStep(Step{Op: "peer_rm", At: 100, Slot: 100})
				p.AddStep(Step{Op: "wait", Ms: r.Range(100, 3000)})
				p.AddStep(Step{Op: "heal"})
			}
		case x < 84 && faulty:
			if r.Chance(0.5) {
				p.AddStep(Step{Op: "isolate", Slot: pickMember()})
			} else {
				p.AddStep(Step{Op: "cut", A: r.Intn(slots), B: r.Intn(slots)})
			}
			if r.Chance(0.6) {
				// a change while the partition lasts
				if r.Chance(0.5) {
					p.AddStep(pinStep())
				} else {
					p.AddStep(Step{Op: "peer_rm", At: pickMember(), Slot: pickMember()})
				}
				p.AddStep(Step{Op: "wait", Ms: r.Range(100, 5000)})
				p.AddStep(Step{Op: "heal"})
			}
		case x < 90 && faulty:
			p.AddStep(Step{Op: "heal"})
		case x < 94:
			p.AddStep(Step{Op: "start", Slot: r.Intn(slots)})
		default:
			p.AddStep(Step{Op: "wait", Ms: one(r, 1, 10, 100) * r.Range(1, 50)})
		}
	}
	return p
}

// ------------------------------------------------------------------ world

type tri int

const (
	no tri = iota
	yes
	maybe
)

func (t tri) String() string { return [...]string{"no", "yes", "maybe"}[t] }

type node struct {
	store     *simkit.RestoreCountingDS
	slot, gen int
	host      host.Host
	base      string
	rcfg      *raft.Config
	cons      *raft.Consensus
	cl        *ipfscluster.Cluster
	cfg       *ipfscluster.Config
	mon       *simkit.ModelMonitor
	tr        *simkit.ModelTracker
	cancel    context.CancelFunc
	alive     bool
	stuck     bool // its Shutdown never returned
	staging   bool
	graceful  bool
	dead      chan struct{}
	// joiner bookkeeping
	joinBefore  map[int]map[string]bool // model pinset when the first add/join of this incarnation began
	joinTouched map[int]bool            // CIDs written since
	readySnap   map[string]string       // pinset of this peer when its Ready channel closed
	readyAt     int64
	readySeen   bool
	readyJudged bool
	who         string
}

type pending struct {
	name  string
	done  chan error
	step  Step
	apply func(err error, returned bool)
}

type world struct {
	run   *simkit.Run
	plan  *simkit.Plan
	net   *simkit.Net
	base  string
	slots int
	cur   []*node
	all   []*node
	ctx   context.Context
	stop  context.CancelFunc
	// model
	member       map[int]tri
	everMember   map[int]bool
	hist         map[int][]*wop // cid index -> writes issued
	ncids        int
	tick         int
	nonce        int
	faultsActive int // cuts in force
	everFaulted  bool
	zombies      bool // a peer that may have been removed while it could not hear about it is (or may come) up
	pend         []*pending
	lastLeader   int
	amnesia      bool // see joinOp
	hungCalls    int  // bounded calls that did not come back
	// missedRemoval[x]: members that were down when x's removal was committed and
	// may hold a configuration that lists x until they have caught up; reuseRisk: x
	// was started afresh under the same identity while that set was not empty
	missedRemoval map[int]map[int]bool
	reuseRisk     bool
	wedgedSeen    bool // see wedged()
}

// wop is one write of the history: the model is a register per CID under
// possibly overlapping writes, some of which are never acknowledged.
type wop struct {
	vacate     bool   // re-submitted by PeerRemove, not by a client
	val        string // name, "" = unpin
	start, end int    // logical stamps; end = 0 while not acknowledged
	acked      bool
}

// allowed lists the values a CID may hold now: the value of every write that no
// acknowledged write started after (an unacknowledged write may take effect at
// any later time, or never), and "absent" when no acknowledged write is known
// to precede everything.
func (w *world) allowed(c int) map[string]bool {
	out := map[string]bool{}
	ops := w.hist[c]
	superseded := func(end int) bool {
		for _, p := range ops {
			if p.acked && p.start > end {
				return true
			}
		}
		return false
	}
	for _, o := range ops {
		if !o.acked || !superseded(o.end) {
			out[o.val] = true
		}
	}
	if !superseded(0) {
		out[""] = true
	}
	return out
}

func (w *world) allowedAll() map[int]map[string]bool {
	out := map[int]map[string]bool{}
	for c := 0; c < w.ncids; c++ {
		out[c] = w.allowed(c)
	}
	return out
}

func (w *world) id(slot int) peer.ID { return simkit.TestPeer(slot) }

func (w *world) addr(slot int) ma.Multiaddr {
	a, err := ma.NewMultiaddr(fmt.Sprintf("/ip4/10.0.%d.%d/tcp/9096/p2p/%s", slot/250, 1+slot%250, w.id(slot).Pretty()))
	if err != nil {
		panic(err)
	}
	return a
}

func copyDir(src, dst string) {
	os.RemoveAll(dst)
	if out, err := exec.Command("cp", "-a", src, dst).CombinedOutput(); err != nil {
		panic(fmt.Sprintf("cp: %v %s", err, out))
	}
}

func hasRaftData(dir string) bool {
	ents, err := os.ReadDir(dir)
	return err == nil && len(ents) > 0
}

func (w *world) mkRaftCfg(dir string, initPeers []peer.ID) *raft.Config {
	p := w.plan
	cfg := &raft.Config{}
	cfg.Default()
	cfg.DataFolder = dir
	cfg.InitPeerset = initPeers
	hb := time.Duration(p.Knob("heartbeat_ms", 200)) * time.Millisecond
	cfg.RaftConfig.HeartbeatTimeout = hb
	cfg.RaftConfig.ElectionTimeout = hb
	cfg.RaftConfig.LeaderLeaseTimeout = hb
	cfg.RaftConfig.CommitTimeout = 20 * time.Millisecond
	cfg.RaftConfig.SnapshotThreshold = uint64(p.Knob("snap_threshold", 8))
	cfg.RaftConfig.SnapshotInterval = 2 * time.Second
	cfg.RaftConfig.TrailingLogs = uint64(p.Knob("trailing", 4))
	cfg.CommitRetries = int(p.Knob("commit_retries", 1))
	cfg.CommitRetryDelay = 100 * time.Millisecond
	cfg.WaitForLeaderTimeout = 5 * time.Second
	cfg.NetworkTimeout = 3 * time.Second
	cfg.BackupsRotate = int(p.Knob("backups_rotate", 3))
	return cfg
}

// start creates an incarnation of the peer in slot i. staging: no state and it
// has to join; initPeers only for the peers the cluster is bootstrapped with.
func (w *world) start(i int, base string, staging bool, initPeers []peer.ID) *node {
	gen := 0
	if w.cur[i] != nil {
		gen = w.cur[i].gen + 1
	}
	n := &node{slot: i, gen: gen, base: base, alive: true, staging: staging, who: fmt.Sprintf("p%d.%d", i, gen)}
	os.MkdirAll(base, 0o755)
	n.host = w.net.AddPeer(i)
	ctx, cancel := context.WithCancel(w.ctx)
	n.cancel = cancel
	dht, err := dual.New(ctx, n.host)
	if err != nil {
		panic(err)
	}
	n.rcfg = w.mkRaftCfg(filepath.Join(base, "raft"), initPeers)
	n.store = simkit.NewRestoreCountingDS(dssync.MutexWrap(ds.NewMapDatastore()))
	var cons *raft.Consensus
	func() {
		defer func() {
			r := recover()
			if r == nil {
				return
			}
			// hashicorp/raft's NewRaft panics when the log it finds on disk has a hole
			// after its newest snapshot. Seen only where Raft was beyond help already
			// (snapshot-install loop, amnesiac voter: leaders whose own logs have holes
			// install snapshots older than the follower's log): not judged there, and
			// reported as a crash anywhere else. The plan ends here either way.
			msg := fmt.Sprint(r)
			if strings.Contains(msg, "log not found") && w.raftBroken() {
				w.run.Probe("start_not_judged_raft_log_broken")
			} else {
				w.run.Violate("C17/crash", "panic at start: "+msg+";NewConsensus", "%s cannot be started on the Raft data it left in %s: NewConsensus panics: %s", n.who, filepath.Base(base), msg)
			}
			n.host.Close()
			cancel()
			panic(simkit.EndPlan{Why: n.who + " cannot be started: " + msg})
		}()
		cons, err = raft.NewConsensus(n.host, n.rcfg, n.store, staging)
	}()
	if err != nil {
		panic(fmt.Sprintf("raft.NewConsensus: %v", err))
	}
	n.cons = cons
	cfg := &ipfscluster.Config{}
	if err := cfg.Default(); err != nil {
		panic(err)
	}
	cfg.Peername = fmt.Sprintf("sim%d", i)
	cfg.SetBaseDir(base)
	cfg.MDNSInterval = 0
	cfg.ReplicationFactorMin, cfg.ReplicationFactorMax = int(w.plan.Knob("rmin", -1)), int(w.plan.Knob("rmax", -1))
	cfg.DisableRepinning = w.plan.Knob("norepin", 0) == 1
	cfg.LeaveOnShutdown = false
	cfg.StateSyncInterval = 100 * time.Hour
	cfg.PinRecoverInterval = 100 * time.Hour
	cfg.MonitorPingInterval = 100 * time.Hour
	cfg.PeerWatchInterval = time.Duration(w.plan.Knob("watch_ms", 1000)) * time.Millisecond
	n.mon = simkit.NewModelMonitor(w.run, fmt.Sprintf("mon%d", i), func() []peer.ID {
		ps, err := cons.Peers(context.Background())
		if err != nil {
			return nil
		}
		return ps
	})
	// every slot has a valid free-space metric at every peer: who may receive
	// content is then decided by the peerset alone
	for s := 0; s < w.slots; s++ {
		n.mon.LogMetric(ctx, &api.Metric{Name: informerName, Peer: w.id(s), Value: fmt.Sprintf("%d", 1000-100*s), Expire: time.Now().Add(1000 * time.Hour).UnixNano(), Valid: true})
		n.mon.LogMetric(ctx, &api.Metric{Name: "ping", Peer: w.id(s), Value: "", Expire: time.Now().Add(1000 * time.Hour).UnixNano(), Valid: true})
	}
	n.tr = simkit.NewModelTracker(n.host.ID())
	ipfs := simkit.NewModelIPFSConn(simkit.NewModelIPFS(w.run, fmt.Sprintf("ipfs%d", i)))
	inf := simkit.NewModelInformer(informerName, 1000*time.Hour)
	cl, err := ipfscluster.NewCluster(ctx, n.host, dht, cfg, dssync.MutexWrap(ds.NewMapDatastore()), cons, nil, ipfs, n.tr, n.mon, descendalloc.NewAllocator(), []ipfscluster.Informer{inf}, simkit.NopTracer{})
	if err != nil {
		panic(fmt.Sprintf("NewCluster: %v", err))
	}
	n.cl = cl
	n.cfg = cfg
	w.cur[i] = n
	w.all = append(w.all, n)
	w.run.Ev(n.who, "start", "staging=%v dir=%s", staging, filepath.Base(base))
	// observe the instant the peer reports itself ready
	go func() {
		// a peer whose consensus does not become ready in time gives up and shuts
		// itself down: it must then really be down
		go func() {
			select {
			case <-cl.Ready():
			case <-cl.Done():
			case <-ctx.Done():
			case <-time.After(ipfscluster.ReadyTimeout + 60*time.Second):
				if n.alive && !n.stuck && w.raftBroken() {
					n.stuck = true
				} else if n.alive && !n.stuck {
					n.stuck = true
					w.run.Violate("C17/gave_up_but_never_stopped", "", "%s did not become ready within ReadyTimeout (%v); 60 s later it is neither ready nor shut down", n.who, ipfscluster.ReadyTimeout)
				}
			}
		}()
		select {
		case <-cl.Ready():
			n.readySnap = w.pinsetOf(n)
			n.readyAt = w.run.NowMs()
			n.readySeen = true
			w.run.Ev(n.who, "ready", "pins=%d", len(n.readySnap))
		case <-cl.Done():
		case <-ctx.Done():
		}
	}()
	return n
}

// listOf reads a peer's pinset, bounded like peersOf.
func (w *world) listOf(n *node) ([]*api.Pin, error) {
	type res struct {
		l   []*api.Pin
		err error
	}
	ch := make(chan res, 1)
	go func() {
		st, err := n.cons.State(context.Background())
		if err != nil {
			ch <- res{nil, err}
			return
		}
		l, err := st.List(context.Background())
		ch <- res{l, err}
	}()
	select {
	case r := <-ch:
		return r.l, r.err
	case <-time.After(20 * time.Second):
		w.run.Probe("state_call_unanswered")
		return nil, errors.New("Consensus.State() has not answered after 20 s")
	}
}

func (w *world) pinsetOf(n *node) map[string]string {
	out := map[string]string{}
	l, err := w.listOf(n)
	if err != nil {
		return nil
	}
	for _, p := range l {
		out[p.Cid.String()] = p.Name
	}
	return out
}

func (w *world) peersOf(n *node) ([]int, error) {
	// (bounded: a consensus component whose Raft instance has stopped behind its
	// back never answers, and the plan must go on)
	type res struct {
		ps  []peer.ID
		err error
	}
	ch := make(chan res, 1)
	go func() {
		ps, err := n.cons.Peers(context.Background())
		ch <- res{ps, err}
	}()
	var ps []peer.ID
	select {
	case r := <-ch:
		if r.err != nil {
			return nil, r.err
		}
		ps = r.ps
	case <-time.After(20 * time.Second):
		w.run.Probe("peers_call_unanswered")
		return nil, errors.New("Consensus.Peers() has not answered after 20 s")
	}
	var out []int
	for _, p := range ps {
		out = append(out, w.net.Index(p))
	}
	sort.Ints(out)
	return out, nil
}

func (w *world) up(slot int) *node {
	if slot < 0 || slot >= w.slots {
		return nil
	}
	n := w.cur[slot]
	if n == nil || !n.alive {
		return nil
	}
	select {
	case <-n.cl.Done():
		// it has stopped itself
		n.alive = false
		n.graceful = true
		return nil
	default:
	}
	return n
}

func (w *world) leader() *node {
	for _, n := range w.cur {
		if n == nil || w.up(n.slot) == nil || w.member[n.slot] == no {
			continue
		}
		if l, err := n.cons.Leader(context.Background()); err == nil {
			if i := w.net.Index(l); i >= 0 {
				if ln := w.up(i); ln != nil {
					if l2, err := ln.cons.Leader(context.Background()); err == nil && l2 == l {
						return ln
					}
				}
			}
		}
	}
	return nil
}

// agreedLeader: the slot every running member names as leader, the named peer
// being up and naming itself (-1: none). A call that needs the leader may
// legitimately fail for want of one while elections are going on - which they
// can be well after the last fault: a peer that was cut off comes back with a
// higher term and unseats the leader when the leader next reaches it.
func (w *world) agreedLeader() int {
	ref := -2
	for i := 0; i < w.slots; i++ {
		if w.member[i] == no {
			continue
		}
		n := w.up(i)
		if n == nil {
			return -1
		}
		l, err := n.cons.Leader(context.Background())
		if err != nil {
			return -1
		}
		li := w.net.Index(l)
		if li < 0 || w.up(li) == nil {
			return -1
		}
		if ref == -2 {
			ref = li
		} else if ref != li {
			return -1
		}
	}
	if ref < 0 {
		return -1
	}
	return ref
}

// modelPeersBefore: the certain members as they were before a removal of slot
// was applied to the model (the removal sets it to no before this is asked).
func (w *world) modelPeersBefore(slot int, was tri) []int {
	var out []int
	for i := 0; i < w.slots; i++ {
		if w.member[i] == yes || (i == slot && was == yes) {
			out = append(out, i)
		}
	}
	sort.Ints(out)
	return out
}

// modelPeers is the list of certain members.
func (w *world) modelPeers() []int {
	var out []int
	for i := 0; i < w.slots; i++ {
		if w.member[i] == yes {
			out = append(out, i)
		}
	}
	return out
}

func sleep(d time.Duration) {
	time.Sleep(d)
	synctest.Wait()
}

// call runs fn with a bound; returned=false means it was still running when
// the bound passed (it keeps running; its outcome is then unknown).
func call(bound time.Duration, fn func() error) (err error, returned bool) {
	done := make(chan error, 1)
	go func() { done <- fn() }()
	select {
	case err = <-done:
		return err, true
	case <-time.After(bound):
		return nil, false
	}
}

func fmtSet(m map[string]bool) string {
	var l []string
	for k := range m {
		if k == "" {
			k = "<absent>"
		}
		l = append(l, k)
	}
	sort.Strings(l)
	return "{" + strings.Join(l, "|") + "}"
}

func copyPins(m map[int]map[string]bool) map[int]map[string]bool {
	out := map[int]map[string]bool{}
	for k, v := range m {
		c := map[string]bool{}
		for a := range v {
			c[a] = true
		}
		out[k] = c
	}
	return out
}

func (w *world) quiet() bool { return w.faultsActive == 0 }

// wedged: some running peer is being sent the same snapshot over and over
// (hashicorp/raft v1.1.1 with TrailingLogs smaller than the stale suffix a
// former leader kept: DESIGN 0.5). Leadership then keeps changing, calls that
// need the leader hang or fail and Shutdown can wait behind them for ever; none
// of that is ipfs-cluster's doing, so progress, agreement and termination are not
// judged from then on (sticky).
// raftBroken: Raft itself can no longer be expected to make progress - the
// snapshot-install loop (wedged), or a voter that came back with an empty log
// (amnesia, see joinOp): a leader elected with that voter's help lacks committed
// entries, the others reject what it sends for ever, and a configuration change
// it starts - the leave inside Shutdown - is never committed while its heartbeats
// keep it leader. Clauses about a peer stopping in bounded time are not judged.
func (w *world) raftBroken() bool {
	if w.wedged() {
		w.run.Probe("not_judged_raft_wedged")
		return true
	}
	if w.amnesia {
		w.run.Probe("stopping_not_judged_after_amnesiac_rejoin")
		return true
	}
	return false
}

func (w *world) wedged() bool {
	if w.wedgedSeen {
		return true
	}
	for _, n := range w.cur {
		if n != nil && n.alive && n.store != nil && n.store.Consecutive() >= 6 {
			w.wedgedSeen = true
			w.run.Probe("raft_snapshot_install_loop_seen")
			return true
		}
	}
	return false
}

// wedgedForGood is what the waiting loops ask before their bound has passed: the
// loop was already seen (sticky, nothing that follows is judged against the
// bound), or a running member is at fifty or more restores in a row right now.
func (w *world) wedgedForGood() bool {
	if w.wedgedSeen {
		return true
	}
	for _, n := range w.cur {
		if n != nil && n.alive && n.store != nil && n.store.Consecutive() >= 50 {
			return w.wedged()
		}
	}
	return false
}

// calm: no partition and every member is up.
func (w *world) calm() bool {
	if w.faultsActive != 0 {
		return false
	}
	for i := 0; i < w.slots; i++ {
		if w.member[i] != no && w.up(i) == nil {
			return false
		}
	}
	return true
}

// ------------------------------------------------------------------ execution

func execC17(plan *simkit.Plan, run *simkit.Run) {
	w := &world{run: run, plan: plan, member: map[int]tri{}, everMember: map[int]bool{}, hist: map[int][]*wop{}, lastLeader: -1}
	w.ncids = int(plan.Knob("ncids", 3))
	w.ctx, w.stop = context.WithCancel(context.Background())
	w.slots = int(plan.Knob("slots", 3))
	init := int(plan.Knob("init", 1))
	tmp := os.Getenv("VERIF_TMP")
	if tmp == "" {
		tmp = "/dev/shm"
	}
	w.base = filepath.Join(tmp, fmt.Sprintf("mb-%d-%s", os.Getpid(), plan.Digest()))
	os.MkdirAll(w.base, 0o755)
	defer os.RemoveAll(w.base)
	w.net = simkit.NewNet(run, time.Duration(plan.Knob("latency_ms", 2))*time.Millisecond)
	w.net.LenientClose = true
	w.cur = make([]*node, w.slots)
	var initPeers []peer.ID
	for i := 0; i < init; i++ {
		initPeers = append(initPeers, w.id(i))
	}
	for i := 0; i < init; i++ {
		w.start(i, filepath.Join(w.base, fmt.Sprintf("p%d-g0", i)), false, initPeers)
		w.member[i] = yes
		w.everMember[i] = true
	}
	w.net.ConnectAll()
	defer func() {
		for _, n := range w.all {
			if n.alive && !n.stuck {
				call(60*time.Second, func() error { return n.cl.Shutdown(context.Background()) })
			}
			if n.dead != nil {
				select {
				case <-n.dead:
				case <-time.After(60 * time.Second):
				}
			}
			n.cancel()
			n.host.Close()
		}
		w.stop()
		w.net.Close()
		synctest.Wait()
	}()
	for i := 0; i < init; i++ {
		select {
		case <-w.cur[i].cl.Ready():
		case <-time.After(60 * time.Second):
			panic("initial cluster peer did not become ready")
		}
		w.cur[i].readyJudged = true
	}
	synctest.Wait()

	for _, raw := range plan.Steps {
		if w.hungCalls > 0 && w.raftBroken() {
			// Raft is beyond help (snapshot-install loop or an amnesiac voter) and
			// calls have stopped coming back: every further step would spin through
			// its whole bound with nothing left to judge. The plan ends here.
			run.Probe("plan_ended_raft_broken_and_calls_hang")
			panic(simkit.EndPlan{Why: "Raft is broken and calls hang"})
		}
		var s Step
		if err := json.Unmarshal(raw, &s); err != nil {
			panic(err)
		}
		run.Step()
		run.AbandonIfWallOver()
		w.step(s)
		if run.Violated() {
			return
		}
	}
	w.drain()
	run.AbandonIfWallOver()
	if w.hungCalls > 0 && w.raftBroken() {
		run.Probe("plan_ended_raft_broken_and_calls_hang")
		panic(simkit.EndPlan{Why: "Raft is broken and calls hang"})
	}
	w.finale()
}

func (w *world) touch(c int) {
	for _, n := range w.cur {
		if n != nil && n.joinTouched != nil {
			n.joinTouched[c] = true
		}
	}
}

// drain waits for overlapped calls.
func (w *world) drain() {
	for _, p := range w.pend {
		select {
		case err := <-p.done:
			p.apply(err, true)
		case <-time.After(60 * time.Second):
			p.apply(nil, false)
		}
	}
	w.pend = nil
}

func (w *world) step(s Step) {
	run := w.run
	// 100 = whoever leads now; remembered so that "the leader" of an isolate step
	// and of the removal that follows it is the same peer
	if s.At == 100 || s.Slot == 100 {
		if s.Op == "isolate" || w.lastLeader < 0 {
			w.lastLeader = -1
			if l := w.leader(); l != nil {
				w.lastLeader = l.slot
			}
		}
		if w.lastLeader < 0 {
			return
		}
		if s.At == 100 {
			s.At = w.lastLeader
		}
		if s.Slot == 100 {
			s.Slot = w.lastLeader
		}
	}
	switch s.Op {
	case "wait":
		sleep(time.Duration(s.Ms) * time.Millisecond)
	case "pin", "unpin":
		n := w.up(s.At)
		if n == nil || s.Cid >= w.ncids {
			return
		}
		run.Op()
		w.nonce++
		name := fmt.Sprintf("n%d", w.nonce)
		c := simkit.TestCid(s.Cid)
		w.touch(s.Cid)
		fn := func() error {
			if s.Op == "pin" {
				o := api.PinOptions{Name: name, ReplicationFactorMin: s.RMin, ReplicationFactorMax: s.RMax}
				_, err := n.cl.Pin(context.Background(), c, o)
				return err
			}
			_, err := n.cl.Unpin(context.Background(), c)
			return err
		}
		val := name
		if s.Op == "unpin" {
			val = ""
		}
		w.tick++
		op := &wop{val: val, start: w.tick}
		w.hist[s.Cid] = append(w.hist[s.Cid], op)
		apply := func(err error, returned bool) {
			run.Ev(n.who, s.Op, "cid%d %s err=%v returned=%v", s.Cid, name, err, returned)
			if returned && err == nil {
				w.tick++
				op.end, op.acked = w.tick, true
				run.Probe("acknowledged_writes")
				return
			}
			run.Probe("unacknowledged_writes")
		}
		if s.Overlap {
			done := make(chan error, 1)
			go func() { done <- fn() }()
			w.pend = append(w.pend, &pending{name: name, done: done, step: s, apply: apply})
			run.Probe("overlapped_writes")
			return
		}
		err, ret := call(60*time.Second, fn)
		if !ret {
			w.hungCalls++
		}
		apply(err, ret)
	case "join", "peer_add":
		w.joinOp(s)
	case "peer_rm":
		w.removeOp(s)
	case "stop":
		w.stopOp(s)
	case "start":
		w.startOp(s)
	case "crash":
		w.crashOp(s)
	case "cut":
		if s.A == s.B || s.A >= w.slots || s.B >= w.slots || w.cur[s.A] == nil || w.cur[s.B] == nil || w.net.IsCut(s.A, s.B) {
			return
		}
		w.net.Cut(s.A, s.B)
		w.faultsActive++
		w.everFaulted = true
		run.Fault("partition")
		run.Ev("net", "cut", "%d-%d", s.A, s.B)
	case "isolate":
		if w.cur[s.Slot] == nil {
			return
		}
		if l := w.leader(); l != nil && l.slot == s.Slot {
			run.Probe("leader_isolated")
		}
		w.net.Isolate(s.Slot)
		w.faultsActive++
		w.everFaulted = true
		run.Fault("partition")
		run.Ev("net", "isolate", "%d", s.Slot)
	case "heal":
		if w.faultsActive == 0 {
			return
		}
		w.net.Heal()
		w.faultsActive = 0
		run.Ev("net", "heal", "")
		sleep(2 * time.Second)
	}
}

func sameSet(a, b map[string]bool) bool {
	if len(a) != len(b) {
		return false
	}
	for k := range a {
		if !b[k] {
			return false
		}
	}
	return true
}

// definiteMembers lists the slots that are certainly members.
func (w *world) count(t tri) int {
	n := 0
	for _, v := range w.member {
		if v == t {
			n++
		}
	}
	return n
}

func (w *world) memberList() string {
	var l []string
	for i := 0; i < w.slots; i++ {
		if w.member[i] != no {
			x := fmt.Sprintf("%d", i)
			if w.member[i] == maybe {
				x += "?"
			}
			l = append(l, x)
		}
	}
	return "[" + strings.Join(l, " ") + "]"
}

func (w *world) joinOp(s Step) {
	run := w.run
	at := w.up(s.At)
	if at == nil || s.Slot >= w.slots || w.member[s.At] == no || s.At == s.Slot {
		return
	}
	tgt := w.up(s.Slot)
	if tgt == nil {
		if w.cur[s.Slot] != nil && !w.cur[s.Slot].alive && hasRaftData(w.cur[s.Slot].rcfg.DataFolder) && w.cur[s.Slot].graceful {
			return // a stopped member with data: "start" brings it back, not join
		}
		if w.cur[s.Slot] != nil && !w.cur[s.Slot].alive && !w.cur[s.Slot].graceful {
			return // crashed: start first
		}
		// the same machine again: same folders (what Clean left, and its backups)
		base := filepath.Join(w.base, fmt.Sprintf("p%d-g0", s.Slot))
		if w.cur[s.Slot] != nil && w.member[s.Slot] != no {
			// The peer stopped itself and wiped its Raft data although no removal of
			// it was ever acknowledged (the peerset watcher acts on the latest, possibly
			// uncommitted, configuration), and now it comes back under the same identity
			// with an empty log: Raft's assumptions (a voter never forgets) no longer
			// hold, nothing about agreement is promised from here on. Observation,
			// DESIGN.md section 0.5.
			w.amnesia = true
			w.run.Probe("rejoin_after_unacknowledged_self_removal")
		}
		if w.cur[s.Slot] != nil && w.zombies {
			// A peer that was removed (and cleaned its data) comes back under the same
			// identity while an ex-member that never heard of its own removal may still
			// be running with a configuration that lists both: with the returning peer's
			// vote (its log is empty, it votes for anybody) that ex-member can elect
			// itself under its old configuration and hand it to the returning peer, which
			// then disagrees with the real members for good (thorough replay seed
			// 493421321133). The same broken assumption as above: not judged from here on.
			w.amnesia = true
			w.run.Probe("rejoin_while_unaware_ex_member_may_run")
		}
		if w.cur[s.Slot] != nil {
			base = w.cur[s.Slot].base
			w.cur[s.Slot].host.Close()
			w.net.Kill(s.Slot)
		}
		w.net.Uncut(s.Slot)
		if len(w.missedRemoval[s.Slot]) > 0 {
			// The identity that left comes back, with an empty log, while a member that
			// was down when it left may still run on a configuration that lists it as
			// a voter: see the known finding on C17/peersets_disagree.
			w.reuseRisk = true
			w.run.Probe("identity_reused_while_a_member_missed_its_removal")
		}
		tgt = w.start(s.Slot, base, true, nil)
		for j := 0; j < w.slots; j++ {
			if j != s.Slot && w.cur[j] != nil && w.cur[j].alive {
				w.net.Connect(s.Slot, j)
			}
		}
		synctest.Wait()
		if s.Ms > 0 {
			sleep(time.Duration(s.Ms) * time.Millisecond)
		}
	}
	run.Op()
	was := w.member[s.Slot]
	if tgt.joinBefore == nil && tgt.staging && !tgt.readySeen {
		tgt.joinBefore = w.allowedAll()
		tgt.joinTouched = map[int]bool{}
	}
	quietBefore := w.calm()
	var beforePeers []int
	if was == yes {
		beforePeers, _ = w.peersOf(at)
	}
	leaderBefore := w.agreedLeader()
	var err error
	var ret bool
	if s.Op == "join" {
		err, ret = call(90*time.Second, func() error { return tgt.cl.Join(context.Background(), w.addr(s.At)) })
	} else {
		err, ret = call(90*time.Second, func() error { _, e := at.cl.PeerAdd(context.Background(), w.id(s.Slot)); return e })
	}
	run.Ev(at.who, s.Op, "slot=%d err=%v returned=%v members=%s", s.Slot, err, ret, w.memberList())
	if !ret {
		w.hungCalls++
	}
	switch {
	case ret && err == nil:
		w.member[s.Slot] = yes
		run.Probe("adds_succeeded")
		defer func() { w.everMember[s.Slot] = true }()
		if was == yes {
			run.Probe("add_of_present_peer")
			// a harmless no-op
			after, perr := w.peersOf(at)
			if fmt.Sprint(beforePeers) != fmt.Sprint(w.modelPeers()) {
				// the peer asked was behind (restarted, not yet caught up): what it
				// reports afterwards may differ for that reason alone
				run.Probe("noop_not_judged_peer_was_behind")
			} else if perr == nil && beforePeers != nil && fmt.Sprint(after) != fmt.Sprint(beforePeers) && quietBefore && w.count(maybe) == 0 {
				run.Violate("C17/add_present_not_noop", "", "adding p%d, which was a member already, changed the peerset reported by p%d from %v to %v", s.Slot, s.At, beforePeers, after)
			}
		}
		if l := w.leader(); l != nil {
			if l.slot == s.At {
				run.Probe("issued_at_leader")
			} else {
				run.Probe("issued_at_follower")
			}
		}
		if s.Op == "join" && tgt.staging {
			// Join returned: the joiner waited for the state
			w.judgeJoiner(tgt, w.pinsetOf(tgt), "when Join returned")
		}
	default:
		if was == yes && ret && quietBefore && w.count(maybe) == 0 && at.slot != s.Slot {
			if la := w.agreedLeader(); leaderBefore < 0 || la != leaderBefore {
				run.Probe("noop_failure_not_judged_no_stable_leader")
			} else if w.up(s.Slot) != nil && w.up(s.At) != nil {
				run.Violate("C17/add_present_failed", "", "adding p%d, which is a member already, at p%d failed: %v", s.Slot, s.At, err)
			}
		}
		if was != yes && ret && err != nil && s.Op == "join" && strings.HasPrefix(err.Error(), w.id(s.Slot).Pretty()+" cannot connect to ") {
			// the joiner's own dial of the peer it bootstraps to failed: the request
			// never left it and nothing can have changed. Nothing else that says
			// "cannot connect" means as much: PeerAdd reports that very error when
			// the addition was committed and the new peer could then not be asked for
			// its ID (F22), and a redirect to the leader may fail so after an earlier
			// attempt of uncertain outcome
			run.Probe("add_failed_before_reaching_anyone")
		} else if was != yes {
			w.member[s.Slot] = maybe
			defer func() { w.everMember[s.Slot] = true }()
		}
		run.Probe("adds_failed")
	}
	w.settle(fmt.Sprintf("after %s of p%d at p%d", s.Op, s.Slot, s.At))
}

// judgeJoiner compares what a joiner holds with what had been acknowledged
// before its addition began.
func (w *world) judgeJoiner(n *node, got map[string]string, when string) {
	if n.joinBefore == nil || got == nil {
		return
	}
	w.run.Probe("joiner_pinsets_checked")
	clause := "C17/joiner_pinset_differs"
	if w.everMember[n.slot] {
		// the peer had been a member under the same identity before: the Raft log
		// and snapshots it is sent name it as a voter long before its re-addition
		clause = "C17/rejoiner_ready_before_synced"
		w.run.Probe("rejoiner_pinsets_checked")
	}
	for c, set := range n.joinBefore {
		if len(set) != 1 || n.joinTouched[c] {
			continue
		}
		var want string
		for k := range set {
			want = k
		}
		g, ok := got[simkit.TestCid(c).String()]
		if want == "" {
			if ok {
				w.run.Violate(clause, "extra", "%s the new peer %s lists cid%d (%q), which had been unpinned before its addition began", when, n.who, c, g)
			}
			continue
		}
		if !ok {
			w.run.Violate(clause, "missing", "%s the new peer %s does not list cid%d (%q), acknowledged before its addition began; it lists %d pins", when, n.who, c, want, len(got))
		} else if g != want {
			w.run.Violate(clause, "stale", "%s the new peer %s lists cid%d as %q, the value acknowledged before its addition began is %q", when, n.who, c, g, want)
		}
	}
}

func (w *world) judgeReady() {
	for _, n := range w.all {
		if n.readySeen && !n.readyJudged && n.staging {
			n.readyJudged = true
			w.run.Probe("joiner_ready_observed")
			w.judgeJoiner(n, n.readySnap, "when it reported itself ready")
		}
	}
}

func (w *world) removeOp(s Step) {
	run := w.run
	at := w.up(s.At)
	if at == nil || s.Slot >= w.slots || w.member[s.At] == no {
		return
	}
	run.Op()
	was := w.member[s.Slot]
	quietBefore := w.calm() && w.count(maybe) == 0
	tgt := w.up(s.Slot)
	tgtUp := tgt != nil
	beforePeers, _ := w.peersOf(at)
	// what is allocated to the peer that leaves
	type held struct {
		cid  string
		rmin int
	}
	repin := w.plan.Knob("norepin", 0) == 0
	w.tick++
	tick0 := w.tick
	// client writes still in flight when the removal starts
	busy := map[string]bool{}
	for c, ops := range w.hist {
		for _, o := range ops {
			if !o.acked && !o.vacate {
				busy[simkit.TestCid(c).String()] = true
			}
		}
	}
	var heldPins []held
	if l, err := w.listOf(at); err == nil {
		{
			for _, p := range l {
				for _, a := range p.Allocations {
					if a == w.id(s.Slot) {
						heldPins = append(heldPins, held{p.Cid.String(), p.ReplicationFactorMin})
						// PeerRemove re-submits what THIS peer currently lists for the CID
						// (a follower may list an older value than the last acknowledged
						// one): one more write of the history, outcome unknown
						if repin {
							for c := 0; c < w.ncids; c++ {
								if simkit.TestCid(c).String() == p.Cid.String() {
									w.tick++
									w.hist[c] = append(w.hist[c], &wop{val: p.Name, start: w.tick, vacate: true})
									w.touch(c)
									run.Probe("vacate_rewrites")
								}
							}
						}
					}
				}
			}
		}
	}
	membersBefore := w.count(yes)
	isLeader := false
	if l := w.leader(); l != nil && l.slot == s.Slot {
		isLeader = true
	}
	checkRehoming := false
	leaderBefore := w.agreedLeader()
	err, ret := call(90*time.Second, func() error { return at.cl.PeerRemove(context.Background(), w.id(s.Slot)) })
	run.Ev(at.who, "peer_rm", "slot=%d err=%v returned=%v members=%s", s.Slot, err, ret, w.memberList())
	if !ret {
		w.hungCalls++
	}
	switch {
	case ret && err == nil:
		run.Probe("removals_succeeded")
		if was == no {
			run.Probe("removal_of_absent_peer")
			after, perr := w.peersOf(at)
			if fmt.Sprint(beforePeers) != fmt.Sprint(w.modelPeers()) {
				run.Probe("noop_not_judged_peer_was_behind")
			} else if perr == nil && beforePeers != nil && fmt.Sprint(after) != fmt.Sprint(beforePeers) && quietBefore {
				run.Violate("C17/remove_absent_not_noop", "", "removing p%d, which was not a member, changed the peerset reported by p%d from %v to %v", s.Slot, s.At, beforePeers, after)
			}
			break
		}
		if was == yes && membersBefore == 1 && quietBefore {
			run.Violate("C17/last_peer_removed", "", "PeerRemove of p%d, the only member, succeeded", s.Slot)
		}
		w.member[s.Slot] = no
		w.noteRemoved(s.Slot)
		if isLeader {
			run.Probe("leader_removed")
		}
		if s.At == s.Slot {
			run.Probe("self_removed")
		}
		// re-pinning is submitted by the peer that was asked, through the leader: it
		// needs one throughout (for the seconds after a partition a cut-off peer has
		// none: the leader backs off before it reaches it again, F15/F16); failures of
		// it are logged and the removal goes on, by design
		// ... and allocates among the members and metrics as the asked peer sees them:
		// a peer that is still catching up (it reported another peerset than the
		// model's before the call) finds too few candidates
		upToDate := fmt.Sprint(beforePeers) == fmt.Sprint(w.modelPeersBefore(s.Slot, was))
		checkRehoming = repin && quietBefore && was == yes && leaderBefore >= 0 && w.agreedLeader() >= 0 && upToDate
		if repin && quietBefore && was == yes && !checkRehoming {
			run.Probe("rehoming_not_judged_no_stable_leader")
		}
		// the removed peer stops itself and discards its consensus data
		if tgtUp && quietBefore && was == yes && !tgt.readySeen {
			// still starting: it does not watch the peerset before it is ready
			run.Probe("removed_before_ready")
			w.zombies = true
		} else if tgtUp && quietBefore && was == yes {
			w.judgeRemoved(tgt, isLeader)
		} else if tgtUp {
			w.zombies = true
			run.Probe("removed_peer_not_judged_under_faults")
		} else if w.cur[s.Slot] != nil {
			w.zombies = true
		}
	case ret:
		if was == yes && membersBefore == 1 && w.count(maybe) == 0 {
			run.Probe("last_peer_removal_refused")
		} else if la := w.agreedLeader(); was == no && quietBefore && (leaderBefore < 0 || la != leaderBefore) {
			run.Probe("noop_failure_not_judged_no_stable_leader")
		} else if was == no && quietBefore {
			run.Violate("C17/remove_absent_failed", "", "removing p%d, which is not a member, at p%d failed: %v", s.Slot, s.At, err)
		} else if err != nil && strings.Contains(err.Error(), "cannot remove ourselves from a 1-peer cluster") {
			// refused outright by the peer that was asked: nothing was submitted
			run.Probe("last_peer_removal_refused")
		} else if was != no {
			w.member[s.Slot] = maybe
			if tgtUp {
				w.zombies = true
			}
		}
		run.Probe("removals_failed")
	default:
		if was != no {
			w.member[s.Slot] = maybe
			w.zombies = true
		}
		run.Probe("removals_failed")
	}
	w.settle(fmt.Sprintf("after the removal of p%d at p%d", s.Slot, s.At))
	// re-homing, read at the leader once the change has spread
	if l := w.leader(); checkRehoming && l != nil && w.quiet() && !run.Violated() {
		if lst, err := w.listOf(l); err == nil {
			{
				now := map[string]*api.Pin{}
				for _, p := range lst {
					now[p.Cid.String()] = p
				}
				for c, ops := range w.hist {
					for _, o := range ops {
						if !o.vacate && o.start > tick0 {
							busy[simkit.TestCid(c).String()] = true
						}
					}
				}
				for _, h := range heldPins {
					p := now[h.cid]
					if p == nil || h.rmin <= 0 || p.ReplicationFactorMin != h.rmin {
						continue
					}
					if busy[h.cid] {
						// a client write to the same CID raced with the removal: whichever
						// lands last decides the allocations
						run.Probe("rehoming_raced_by_client_write")
						continue
					}
					run.Probe("rehoming_checked")
					if membersBefore-1 < h.rmin {
						run.Probe("rehoming_infeasible")
						continue
					}
					// re-homed: enough holders among those who stay (a pin that still
					// meets its minimum is, by design, not re-allocated)
					stay := 0
					for _, a := range p.Allocations {
						if a != w.id(s.Slot) {
							stay++
						}
					}
					if stay < h.rmin {
						run.Violate("C17/pins_not_rehomed", "", "p%d was removed at p%d with re-pinning enabled and %d other members, yet %s (minimum factor %d) is left with %d holder(s) among them: allocations %v", s.Slot, s.At, membersBefore-1, h.cid[len(h.cid)-6:], h.rmin, stay, w.idxs(p.Allocations))
					}
				}
			}
		}
	}
}

func (w *world) idxs(ps []peer.ID) []int {
	var out []int
	for _, p := range ps {
		out = append(out, w.net.Index(p))
	}
	return out
}

// judgeRemoved: a peer that was up and connected when it was removed stops
// itself (it watches the peerset) and cleans its Raft data.
func (w *world) judgeRemoved(n *node, knows bool) {
	// Raft makes one best-effort attempt to send a removed server the entry
	// that removes it. What this property asks of ipfs-cluster starts when the
	// peer's own consensus component reports a peerset without it.
	// (a leader that committed its own removal knows of it whatever its consensus
	// component answers afterwards)
	heard := knows
	for i := 0; i < 100 && !heard; i++ {
		select {
		case <-n.cl.Done():
			heard = true
			continue
		default:
		}
		ps, err := w.peersOf(n)
		if err == nil {
			heard = true
			for _, x := range ps {
				if x == n.slot {
					heard = false
				}
			}
		}
		if !heard {
			sleep(100 * time.Millisecond)
		}
	}
	if !heard {
		w.run.Probe("removed_peer_never_heard")
		w.zombies = true
		return
	}
	w.run.Probe("removed_peer_heard")
	bound := 2*time.Duration(w.plan.Knob("watch_ms", 1000))*time.Millisecond + 30*time.Second
	select {
	case <-n.cl.Done():
	case <-time.After(bound):
		if !w.quiet() {
			return
		}
		if w.raftBroken() {
			w.zombies = true
			return
		}
		ps, err := w.peersOf(n)
		w.run.Violate("C17/removed_peer_keeps_running", "", "%s learnt that it is no longer in the peerset and %v later it has not stopped itself (it reports the peerset %v, err=%v)", n.who, bound, ps, err)
		w.zombies = true
		return
	}
	synctest.Wait()
	n.alive = false
	n.graceful = true
	w.run.Probe("removed_peer_stopped")
	if hasRaftData(n.rcfg.DataFolder) {
		ents, _ := os.ReadDir(n.rcfg.DataFolder)
		var names []string
		for _, e := range ents {
			names = append(names, e.Name())
		}
		w.run.Violate("C17/removed_peer_keeps_data", "", "%s stopped itself after its removal but its Raft data folder still holds %v", n.who, names)
	} else {
		w.run.Probe("removed_peer_data_cleaned")
	}
}

func (w *world) stopOp(s Step) {
	n := w.up(s.Slot)
	if n == nil {
		return
	}
	w.run.Fault("stop")
	members := w.count(yes) + w.count(maybe)
	leave := s.Leave && members > 1 && n.readySeen
	n.cfg.LeaveOnShutdown = leave
	w.run.Ev(n.who, "stop", "leave=%v", leave)
	// who else was running when the peer was told to stop (a peer that gives up
	// or is removed meanwhile must not be mistaken for one that was down all along)
	othersBefore, runningBefore := 0, 0
	for i := 0; i < w.slots; i++ {
		if i == s.Slot || w.member[i] == no {
			continue
		}
		othersBefore++
		if w.up(i) != nil {
			runningBefore++
		}
	}
	// does the peer's own (latest, possibly uncommitted) configuration still list it?
	ownViewHasIt := true
	if leave {
		if ps, perr := w.peersOf(n); perr == nil {
			ownViewHasIt = false
			for _, x := range ps {
				if x == s.Slot {
					ownViewHasIt = true
				}
			}
		}
	}
	// had the peer's own peerset watcher already decided that it was removed (it
	// acts on the latest configuration, which may hold an entry that is never
	// committed)? Then Shutdown makes no attempt to leave and discards the data.
	watcherDecided := false
	func() {
		defer func() { recover() }()
		f := reflect.ValueOf(n.cl).Elem().FieldByName("removed")
		watcherDecided = reflect.NewAt(f.Type(), unsafe.Pointer(f.UnsafeAddr())).Elem().Bool()
	}()
	err, ret := call(120*time.Second, func() error { return n.cl.Shutdown(context.Background()) })
	if !ret {
		// (every wait inside Shutdown is bounded by a few seconds)
		if os.Getenv("VERIF_DEBUG_STACKS") != "" {
			buf := make([]byte, 16<<20)
			os.Stderr.Write(buf[:runtime.Stack(buf, true)])
		}
		if !w.raftBroken() {
			w.run.Violate("C17/shutdown_never_returns", "", "Shutdown of %s has not returned after 120 s (ready=%v)", n.who, n.readySeen)
		}
		n.alive = false
		n.graceful = false
		n.stuck = true
		return
	}
	_ = err
	synctest.Wait()
	n.alive = false
	n.graceful = true
	if leave && w.member[s.Slot] != no {
		w.run.Probe("leave_on_shutdown")
		// best effort by design: whether it left is read from the others
		w.member[s.Slot] = maybe
		// did it leave? The leader's committed view tells (leaving is best effort:
		// without a leader it fails, and the peer is then still a member)
		sleep(time.Duration(4*w.plan.Knob("heartbeat_ms", 200)+500) * time.Millisecond)
		listed, known := false, false
		lists := func(m *node) (bool, bool) {
			ps, perr := w.peersOf(m)
			if perr != nil {
				return false, false
			}
			for _, x := range ps {
				if x == s.Slot {
					return true, true
				}
			}
			return false, true
		}
		if l := w.leader(); l != nil && l.slot != s.Slot && w.quiet() {
			listed, known = lists(l)
		} else if w.quiet() {
			// no leader (the leaver may have been needed for the quorum): a removal
			// that was committed is known to a majority of those who stay, and all of
			// them were up when it happened; if every member that is up still lists
			// the peer, it did not leave
			ups, all := 0, true
			for i := 0; i < w.slots; i++ {
				if i == s.Slot || w.member[i] != yes {
					continue
				}
				if m := w.up(i); m != nil {
					if in, ok := lists(m); ok {
						ups++
						all = all && in
					}
				}
			}
			if ups > 0 && all {
				listed, known = true, true
			}
			// nobody else is running at all: a removal needs a majority of those who
			// stay, so it cannot have been committed
			if othersBefore > 0 && runningBefore == 0 {
				listed, known = true, true
				w.run.Probe("left_with_nobody_else_running")
			}
		}
		wiped := !hasRaftData(n.rcfg.DataFolder)
		switch {
		case known && !listed && wiped:
			w.run.Probe("left_peer_data_cleaned")
			w.member[s.Slot] = no
			w.noteRemoved(s.Slot)
		case known && !listed && !wiped:
			// Leaving is one call whose outcome the peer may not learn (the answer can
			// time out while the removal goes through): it then keeps its data, finds
			// itself outside the peerset at its next start and cleans up then. The
			// harness cannot see how the call ended: not judged.
			w.run.Probe("left_but_data_kept_until_next_start")
			w.member[s.Slot] = no
			w.noteRemoved(s.Slot)
		case known && listed && wiped:
			// still a voter for the others, and it will come back without its log:
			// such a peer can elect a leader that lacks committed entries (an
			// acknowledged pin was lost that way: replay C17_pinset_lost-982926881082)
			sig := "leave failed"
			if watcherDecided {
				sig = "peerset watcher had seen a configuration without it"
			} else if !ownViewHasIt {
				// its own latest configuration (an earlier removal of it that was appended
				// but never committed) no longer listed it: RemovePeer answers "already
				// removed" from that configuration
				sig = "own view already without it"
			}
			w.run.Violate("C17/member_wiped_its_data", sig, "%s was shut down with leave_on_shutdown, could not leave (%s) and discarded its Raft data all the same", n.who, map[bool]string{true: "the leader still lists it", false: "there is no leader, and every other member that is running - if any - still lists it"}[w.leader() != nil])
		case known && listed:
			// (the removal entry may still sit in the log uncommitted and take effect
			// later: membership stays uncertain, the members' reports decide)
			w.run.Probe("leave_failed_data_kept")
		default:
			if wiped {
				w.run.Probe("left_peer_data_cleaned")
			}
		}
	}
	w.settle(fmt.Sprintf("after p%d stopped", s.Slot))
}

func (w *world) crashOp(s Step) {
	n := w.up(s.Slot)
	if n == nil {
		return
	}
	synctest.Wait()
	w.run.Fault("kill")
	w.everFaulted = true
	if l := w.leader(); l != nil && l.slot == s.Slot {
		w.run.Probe("leader_killed")
	}
	w.net.Kill(s.Slot)
	next := filepath.Join(w.base, fmt.Sprintf("p%d-g%d", s.Slot, n.gen+1))
	copyDir(n.base, next)
	n.alive = false
	n.graceful = false
	w.run.Ev(n.who, "kill", "")
	n.host.Close()
	n.dead = make(chan struct{})
	go func() {
		n.cl.Shutdown(context.Background())
		close(n.dead)
	}()
}

func (w *world) startOp(s Step) {
	if s.Slot >= w.slots {
		return
	}
	n := w.cur[s.Slot]
	if n == nil || n.alive {
		return
	}
	base := n.base
	if !n.graceful {
		base = filepath.Join(w.base, fmt.Sprintf("p%d-g%d", s.Slot, n.gen+1))
		if n.dead != nil {
			select {
			case <-n.dead:
			case <-time.After(120 * time.Second):
				w.run.Probe("old_process_still_winding_down")
				return
			}
			n.dead = nil
		}
	} else {
		// a new process on the old directory
		n.host.Close()
		w.net.Kill(s.Slot)
	}
	if !hasRaftData(filepath.Join(base, "raft")) {
		return // nothing to restart from: it has to join again
	}
	w.run.Fault("restart")
	w.net.Uncut(s.Slot)
	// a peer that was started to join and never got in comes back the same way
	// (restarting it without the bootstrap flag would found a cluster of its own)
	again := n.staging && !n.readySeen
	nn := w.start(s.Slot, base, again, nil)
	if again {
		nn.joinBefore, nn.joinTouched = n.joinBefore, n.joinTouched
	} else {
		nn.readyJudged = true
	}
	for j := 0; j < w.slots; j++ {
		if j != s.Slot && w.cur[j] != nil && w.cur[j].alive && !w.net.IsCut(s.Slot, j) {
			w.net.Connect(s.Slot, j)
		}
	}
	sleep(time.Second)
	if w.member[s.Slot] == no {
		w.zombies = true
	}
}

// noteRemoved records which members were down at the moment x left the peerset.
func (w *world) noteRemoved(x int) {
	if w.missedRemoval == nil {
		w.missedRemoval = map[int]map[int]bool{}
	}
	for j := 0; j < w.slots; j++ {
		if j != x && w.member[j] != no && w.up(j) == nil {
			if w.missedRemoval[x] == nil {
				w.missedRemoval[x] = map[int]bool{}
			}
			w.missedRemoval[x][j] = true
		}
	}
}

// settle lets a membership change spread and then checks agreement, when
// nothing stands in the way of it.
func (w *world) settle(what string) {
	sleep(time.Duration(4*w.plan.Knob("heartbeat_ms", 200)+500) * time.Millisecond)
	w.judgeReady()
	if !w.quiet() {
		return
	}
	for _, n := range w.cur {
		if n != nil && !n.alive && w.member[n.slot] != no {
			return // a member is down: judged at the end
		}
	}
	w.agreement(what, 20*time.Second)
}

// agreement: every remaining member reports the same peerset, and it is the
// one the acknowledged changes lead to.
func (w *world) agreement(what string, bound time.Duration) {
	if w.amnesia {
		w.run.Probe("agreement_not_judged_after_amnesiac_rejoin")
		return
	}
	deadline := time.Now().Add(bound)
	var last string
	for {
		last = w.agreementOnce()
		if last == "" {
			w.run.Probe("agreement_checked")
			return
		}
		if time.Now().After(deadline) || w.wedgedForGood() {
			// (once the snapshot-install loop has been seen the disagreement is not
			// judged, see below: the bound is not waited out inside the loop)
			break
		}
		w.run.AbandonIfWallOver()
		sleep(500 * time.Millisecond)
		w.judgeReady()
	}
	if w.wedged() {
		w.run.Probe("not_judged_raft_wedged")
		return
	}
	sig := ""
	if w.reuseRisk {
		sig = "identity re-added while a member that was down during its removal may still list it"
	}
	w.run.Violate("C17/peersets_disagree", sig, "%s, %v after the last change with every link up: %s", what, bound, last)
}

func (w *world) agreementOnce() string {
	// the reference is the model; maybes are resolved by what the members say
	var views []string
	var ref []int
	first := true
	// what the certain members say decides about the uncertain ones: a peer whose
	// removal was reported as failed, but took effect, may never hear of it (the
	// leader elected afterwards already has a peerset without it) and goes on
	// believing it is a member: it is not one of the remaining members
	var certain []int
	for i := 0; i < w.slots; i++ {
		if w.member[i] == yes {
			if n := w.up(i); n != nil {
				if ps, err := w.peersOf(n); err == nil {
					certain = ps
					break
				}
			}
		}
	}
	if certain == nil && w.count(yes) == 0 {
		// nobody is known for sure to be a member (every outcome was uncertain):
		// there is no "every remaining member" to compare
		w.run.Probe("agreement_not_judged_no_certain_member")
		return ""
	}
	for i := 0; i < w.slots; i++ {
		if w.member[i] == no {
			continue
		}
		if w.member[i] == maybe && certain != nil {
			listed := false
			for _, x := range certain {
				if x == i {
					listed = true
				}
			}
			if !listed {
				w.run.Probe("uncertain_member_not_listed_by_certain_ones")
				continue
			}
		}
		n := w.up(i)
		if n == nil {
			if w.member[i] == yes && w.cur[i] != nil && w.cur[i].alive {
				return fmt.Sprintf("p%d, a member, has stopped itself", i)
			}
			continue
		}
		ps, err := w.peersOf(n)
		if err != nil {
			return fmt.Sprintf("p%d cannot report its peerset: %v", i, err)
		}
		inOwn := false
		for _, x := range ps {
			if x == i {
				inOwn = true
			}
		}
		if w.member[i] == maybe && !inOwn {
			continue // not (yet, or no longer) a member by its own account: others decide
		}
		views = append(views, fmt.Sprintf("p%d:%v", i, ps))
		if first {
			ref, first = ps, false
		} else if fmt.Sprint(ps) != fmt.Sprint(ref) {
			return "members report different peersets: " + strings.Join(views, " ") + fmt.Sprintf(" (p%d differs)", i)
		}
	}
	if first {
		return ""
	}
	in := map[int]bool{}
	for _, x := range ref {
		in[x] = true
	}
	for i := 0; i < w.slots; i++ {
		if w.member[i] == yes && !in[i] {
			return fmt.Sprintf("p%d was added successfully and never removed, but the members report %v", i, ref)
		}
		if w.member[i] == no && in[i] {
			return fmt.Sprintf("p%d was removed successfully (or never added), but the members report %v", i, ref)
		}
	}
	// resolve what failed calls left open
	for i := 0; i < w.slots; i++ {
		if w.member[i] == maybe {
			if in[i] {
				w.member[i] = yes
			} else {
				w.member[i] = no
			}
		}
	}
	return ""
}

// finale: faults stop, members that are down come back, and then everything
// must line up: one peerset, one pinset, nothing acknowledged lost.
func (w *world) finale() {
	run := w.run
	if w.faultsActive > 0 {
		w.net.Heal()
		w.faultsActive = 0
		run.Ev("net", "heal", "final")
	}
	for i := 0; i < w.slots; i++ {
		n := w.cur[i]
		if n != nil && !n.alive && w.member[i] != no {
			w.startOp(Step{Op: "start", Slot: i})
		}
	}
	sleep(5 * time.Second)
	w.judgeReady()
	for i := 0; i < w.slots; i++ {
		if w.member[i] != no && w.up(i) == nil {
			// a member that cannot come back (it left on shutdown without the others
			// hearing of it, or stopped itself): the rest may be without quorum
			run.Probe("final_skipped_member_gone")
			return
		}
	}
	// (an ex-member that could not hear of its removal may be running: it is not
	// one of the remaining members, whose agreement is judged all the same; only
	// the progress demand below is dropped then)
	if w.zombies {
		run.Probe("unaware_ex_member_running_at_the_end")
	}
	// the bounds below cover the slowest legitimate recovery: a leader that kept
	// failing to reach a peer backs off (hashicorp/raft: up to 10ms*2^12 = 41 s
	// between attempts), the peer meanwhile raises its term and is refused votes
	// ("we have a leader"), and when the leader finally reaches it the higher term
	// unseats the leader and an election follows
	w.agreement("at the end", 120*time.Second)
	if run.Violated() {
		return
	}
	// a fresh write goes through and every member ends with the same pinset
	var any *node
	for i := 0; i < w.slots; i++ {
		if w.member[i] == yes && w.up(i) != nil {
			any = w.up(i)
			break
		}
	}
	if any == nil {
		return
	}
	if !w.zombies && !w.amnesia {
		deadline := time.Now().Add(120 * time.Second)
		var err error
		ret := false
		for {
			err, ret = call(60*time.Second, func() error {
				_, e := any.cl.Pin(context.Background(), simkit.TestCid(99), api.PinOptions{Name: "final", ReplicationFactorMin: -1, ReplicationFactorMax: -1})
				return e
			})
			if (ret && err == nil) || time.Now().After(deadline) {
				break
			}
			if w.wedgedForGood() {
				// not judged below whatever the remaining attempts bring, and every
				// simulated second in the snapshot-install loop is hundreds of restores
				break
			}
			run.AbandonIfWallOver()
			run.Probe("final_write_retried")
			sleep(2 * time.Second)
		}
		if (!ret || err != nil) && w.wedged() {
			run.Probe("not_judged_raft_wedged")
			return
		}
		if !ret || err != nil {
			run.Violate("C17/no_progress_after_faults", "", "120 s after the last fault, with every member up and connected, pins at %s keep failing: %v (returned=%v)", any.who, err, ret)
			return
		}
		run.Probe("final_write_ok")
	}
	// every member ends with what was acknowledged: a member that was down catches
	// up once the leader reaches it again (see the bound above)
	deadline := time.Now().Add(120 * time.Second)
	for {
		sleep(3 * time.Second)
		w.judgeReady()
		type miss struct {
			who string
			c   int
			g   string
			set map[string]bool
		}
		var missing []miss
		for i := 0; i < w.slots; i++ {
			n := w.up(i)
			if n == nil || w.member[i] != yes {
				continue
			}
			got := w.pinsetOf(n)
			if got == nil {
				continue
			}
			run.Probe("final_pinsets_checked")
			for c, set := range w.allowedAll() {
				g := got[simkit.TestCid(c).String()]
				if !set[g] && !w.zombies {
					missing = append(missing, miss{n.who, c, g, set})
				}
			}
		}
		if len(missing) == 0 {
			return
		}
		if w.wedgedForGood() {
			// the clause below is not judged once the loop has been seen (the mark
			// is sticky): waiting out the bound inside the loop decides nothing
			run.Probe("not_judged_raft_wedged")
			return
		}
		run.AbandonIfWallOver()
		if time.Now().After(deadline) {
			sort.Slice(missing, func(i, j int) bool {
				if missing[i].who != missing[j].who {
					return missing[i].who < missing[j].who
				}
				return missing[i].c < missing[j].c
			})
			if w.wedged() {
				run.Probe("not_judged_raft_wedged")
				return
			}
			m := missing[0]
			run.Violate("C17/pinset_lost", "", "at the end (120 s after the last write) %s lists cid%d as %q; the acknowledged history allows %s", m.who, m.c, m.g, fmtSet(m.set))
			return
		}
		run.Probe("final_pinsets_waited_for_a_lagging_member")
	}
}
