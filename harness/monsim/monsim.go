// Package monsim runs the real metrics Store/Window/Checker and the real
// pubsubmon Monitor (over real gossipsub on mocknet) under the fake clock.
// Serves C09 (store, freshness, membership filter, alert-once) and C18.
package monsim

import (
	"context"
	"encoding/json"
	"fmt"
	"sort"
	"strings"
	"sync"
	"testing"
	"testing/synctest"
	"time"

	"github.com/ipfs/ipfs-cluster/api"
	"github.com/ipfs/ipfs-cluster/monitor/metrics"
	"github.com/ipfs/ipfs-cluster/monitor/pubsubmon"
	peer "github.com/libp2p/go-libp2p-core/peer"
	rpc "github.com/libp2p/go-libp2p-gorpc"
	pubsub "github.com/libp2p/go-libp2p-pubsub"

	"verif/simkit"
)

type Step struct {
	Op      string `json:"op"` // log publish peerset rmpeer read cut heal
	Mon     int    `json:"mon,omitempty"`
	Name    int    `json:"name,omitempty"`
	Peer    int    `json:"peer,omitempty"`
	Valid   bool   `json:"valid,omitempty"`
	TTLMs   int    `json:"ttl_ms,omitempty"`
	Set     int    `json:"set,omitempty"` // peerset bitmask
	DelayMs int    `json:"delay_ms,omitempty"`
	Overlap bool   `json:"overlap,omitempty"`
	N       int    `json:"n,omitempty"`
}

type H struct{}

func (H) Name() string { return "monsim" }

var names = []string{"ping", "freespace", "numpin"}

func (H) Generate(prop, tier string, seed uint64) *simkit.Plan {
	r := simkit.NewRng(seed)
	p := &simkit.Plan{Property: prop, Harness: "monsim", Seed: seed, RTSeed: r.Uint64() % 1000}
	scenario := r.Pick(3, 2) // 0 store+checker, 1 pubsubmon over gossipsub
	nmon := 1
	if scenario == 1 {
		nmon = r.Range(1, 3)
	}
	p.Scenario = []string{"store", "monitor"}[scenario]
	npeers := r.Range(1, 6)
	nnames := r.Range(1, 3)
	p.SetKnob("nmon", int64(nmon))
	p.SetKnob("npeers", int64(npeers))
	p.SetKnob("nnames", int64(nnames))
	p.SetKnob("peersmode", int64(r.Intn(2))) // 0: nil peers func (CRDT wiring), 1: peerset known (Raft wiring)
	ci := []int{200, 500, 1000, 2000, 5000, 15000}[r.Intn(6)]
	p.SetKnob("check_ms", int64(ci))
	p.SetKnob("peerset0", int64(r.Intn(1<<uint(npeers+1))|1))
	ttls := []int{100, 300, 1000, 3000, 10000, 30000, 60000}
	n := r.Range(5, 50)
	if tier == "thorough" && r.Chance(0.3) {
		n = r.Range(40, 150)
	}
	wrap := r.Chance(0.15) // push one (name,peer) past the window capacity
	var expiries []int     // virtual instants (ms) at which something expires
	vt := 0
	for i := 0; i < n; i++ {
		st := Step{}
		// choose the delay: usually small, sometimes landing on an expiry instant
		d := r.Pick(5, 3, 1) * r.Range(0, 400)
		if len(expiries) > 0 && r.Chance(0.35) {
			e := expiries[r.Intn(len(expiries))]
			if e+1 > vt {
				d = e - vt + r.Range(-1, 1)
				if d < 0 {
					d = 0
				}
			}
		}
		if r.Chance(0.08) {
			d = r.Range(1000, 40000)
		}
		st.DelayMs = d
		vt += d
		switch r.Pick(45, 12, 6, 5, 25, 4, 3) {
		case 0:
			st.Op = "log"
			st.Mon = r.Intn(nmon)
			st.Name = r.Intn(nnames)
			st.Peer = r.Intn(npeers)
			st.Valid = !r.Chance(0.15)
			st.TTLMs = ttls[r.Intn(len(ttls))]
			if r.Chance(0.05) {
				st.TTLMs = -ttls[r.Intn(3)] // already expired on arrival
			}
			if wrap && r.Chance(0.5) {
				st.N = r.Range(5, 30) // a train of arrivals 10ms apart
			}
			expiries = append(expiries, vt+st.TTLMs)
		case 1:
			if scenario != 1 {
				st.Op = "read"
				st.Mon, st.Name = 0, r.Intn(nnames)
				break
			}
			st.Op = "publish"
			st.Mon = r.Intn(nmon)
			st.Name = r.Intn(nnames)
			st.Valid = !r.Chance(0.1)
			st.TTLMs = ttls[r.Intn(len(ttls))]
		case 2:
			st.Op = "peerset"
			st.Set = r.Intn(1 << uint(npeers+1))
		case 3:
			st.Op = "rmpeer"
			st.Peer = r.Intn(npeers)
		case 4:
			st.Op = "read"
			st.Mon = r.Intn(nmon)
			st.Name = r.Intn(nnames)
		case 5:
			st.Op = "cut"
			st.Mon = r.Intn(nmon)
		case 6:
			st.Op = "heal"
		}
		if prop == "C18" && r.Chance(0.7) {
			st.Overlap = true
			st.DelayMs = r.Range(0, 3)
		}
		p.AddStep(st)
	}
	if prop != "C18" && r.Chance(0.15) {
		// directed tail, a second failure of the same peer: its metric expires, is
		// alerted for and forgotten (two check rounds); it comes back with a metric so
		// short-lived that no round need see it alive, and fails again - that is a
		// new failure and has its own alert
		mon, name, peer := r.Intn(nmon), r.Intn(nnames), r.Intn(npeers)
		short := ci / 5
		if short < 40 {
			short = 40
		}
		p.AddStep(Step{Op: "heal"})
		p.AddStep(Step{Op: "peerset", Set: 1<<uint(npeers+1) - 1})
		for k := 0; k < 2; k++ {
			p.AddStep(Step{Op: "log", Mon: mon, Name: name, Peer: peer, Valid: true, TTLMs: short, DelayMs: r.Range(0, ci)})
			p.AddStep(Step{Op: "read", Mon: mon, Name: name, DelayMs: short + 2*ci + r.Range(50, 300)})
		}
		p.SetKnob("second_episode", 1)
	}
	return p
}

// ------------------------------------------------------------------ world

type arrival struct {
	at      time.Time
	valid   bool
	expire  int64
	value   string
	removed bool // harness RemovePeer marker (not an arrival)
}

type alertRec struct {
	at   time.Time
	name string
	peer peer.ID
}

type node struct {
	idx     int
	store   *metrics.Store   // store scenario
	checker *metrics.Checker // store scenario
	mon     *pubsubmon.Monitor
	cancel  context.CancelFunc

	mu     sync.Mutex
	hist   map[string][]arrival // key name|peer -> arrivals and removal markers (direct path only)
	alerts []alertRec
	gossip map[string]bool // (name|peer) that may also have arrived over gossip: exact model not available
}

type world struct {
	run      *simkit.Run
	plan     *simkit.Plan
	nodes    []*node
	peers    []peer.ID
	psMu     sync.Mutex
	peerset  []peer.ID
	psHist   []psChange
	peersOn  bool
	checkInt time.Duration
	net      *simkit.Net
	nonce    int
	want     func(string) bool
	sent     map[string]bool // values ever sent, for attribution
}

type psChange struct {
	at  time.Time
	set map[peer.ID]bool
}

func (w *world) violate(clause, sig, format string, a ...interface{}) {
	if w.want(clause) {
		w.run.Violate(clause, sig, format, a...)
	}
}

func (w *world) setPeerset(mask int) {
	var ps []peer.ID
	set := map[peer.ID]bool{}
	for i, p := range w.peers {
		if mask&(1<<uint(i)) != 0 {
			ps = append(ps, p)
			set[p] = true
		}
	}
	w.psMu.Lock()
	w.peerset = ps
	w.psHist = append(w.psHist, psChange{at: time.Now(), set: set})
	w.psMu.Unlock()
}

func (w *world) peersFunc(ctx context.Context) ([]peer.ID, error) {
	w.psMu.Lock()
	defer w.psMu.Unlock()
	out := make([]peer.ID, len(w.peerset))
	copy(out, w.peerset)
	return out, nil
}

func key(name string, p peer.ID) string { return name + "|" + string(p) }

func (H) Execute(t *testing.T, plan *simkit.Plan, run *simkit.Run) {
	run.Begin()
	prop := plan.Property
	w := &world{run: run, plan: plan, sent: map[string]bool{}}
	w.want = func(clause string) bool {
		return prop == "ALL" || strings.HasPrefix(clause, prop+"/") || clause == "deadlock"
	}
	nmon := int(plan.Knob("nmon", 1))
	npeers := int(plan.Knob("npeers", 3))
	w.checkInt = time.Duration(plan.Knob("check_ms", 1000)) * time.Millisecond
	w.peersOn = plan.Knob("peersmode", 0) == 1
	// metric sources: the monitor hosts first, then plain peer IDs
	for i := 0; i < max(npeers+1, nmon); i++ {
		w.peers = append(w.peers, simkit.TestPeer(i))
	}
	w.setPeerset(int(plan.Knob("peerset0", 1)))
	var pf pubsubmon.PeersFunc
	var pfc func(context.Context) ([]peer.ID, error)
	if w.peersOn {
		pf = w.peersFunc
		pfc = w.peersFunc
	}
	rootCtx, cancelAll := context.WithCancel(context.Background())
	defer func() {
		cancelAll()
		for _, n := range w.nodes {
			if n.mon != nil {
				n.mon.Shutdown(context.Background())
			}
		}
		if w.net != nil {
			w.net.Close()
		}
		synctest.Wait()
	}()

	if plan.Scenario == "monitor" {
		w.net = simkit.NewNet(run, time.Duration(5)*time.Millisecond)
		for i := 0; i < nmon; i++ {
			h := w.net.AddPeer(i)
			ps, err := pubsub.NewGossipSub(rootCtx, h, pubsub.WithMessageSigning(true), pubsub.WithStrictSignatureVerification(true))
			if err != nil {
				panic(err)
			}
			cfg := &pubsubmon.Config{}
			cfg.Default()
			cfg.CheckInterval = w.checkInt
			mon, err := pubsubmon.New(rootCtx, cfg, ps, pf)
			if err != nil {
				panic(err)
			}
			mon.SetClient(rpc.NewClient(nil, "/sim/rpc"))
			n := &node{idx: i, mon: mon, hist: map[string][]arrival{}, gossip: map[string]bool{}}
			w.nodes = append(w.nodes, n)
			go w.collect(rootCtx, n, mon.Alerts())
		}
		w.net.ConnectAll()
		time.Sleep(3 * time.Second) // gossipsub mesh formation
	} else {
		st := metrics.NewStore()
		ck := metrics.NewChecker(rootCtx, st, 3.0)
		n := &node{idx: 0, store: st, checker: ck, hist: map[string][]arrival{}, gossip: map[string]bool{}}
		w.nodes = append(w.nodes, n)
		go ck.Watch(rootCtx, pfc, w.checkInt)
		go w.collect(rootCtx, n, ck.Alerts())
	}

	maxTTL := time.Duration(0)
	for _, raw := range plan.Steps {
		var s Step
		if err := json.Unmarshal(raw, &s); err != nil {
			panic(err)
		}
		if s.DelayMs > 0 {
			time.Sleep(time.Duration(s.DelayMs) * time.Millisecond)
		}
		if d := time.Duration(s.TTLMs) * time.Millisecond; d > maxTTL {
			maxTTL = d
		}
		run.Step()
		w.exec(s)
		if !s.Overlap {
			synctest.Wait()
		}
	}
	synctest.Wait()
	// let every expiry episode have its chance to be noticed
	time.Sleep(maxTTL + 4*w.checkInt + time.Second)
	synctest.Wait()
	for _, n := range w.nodes {
		for ni := 0; ni < int(plan.Knob("nnames", 1)); ni++ {
			w.read(n, names[ni])
		}
		w.judgeAlerts(n)
	}
}

func (w *world) collect(ctx context.Context, n *node, ch <-chan *api.Alert) {
	for {
		select {
		case a := <-ch:
			if a == nil {
				continue
			}
			n.mu.Lock()
			n.alerts = append(n.alerts, alertRec{at: time.Now(), name: a.Name, peer: a.Peer})
			n.mu.Unlock()
			w.run.Ev(fmt.Sprintf("mon%d", n.idx), "alert", "%s peer%d", a.Name, w.peerIdx(a.Peer))
			w.run.Probe("alerts")
		case <-ctx.Done():
			return
		}
	}
}

func (w *world) peerIdx(p peer.ID) int {
	for i, q := range w.peers {
		if q == p {
			return i
		}
	}
	return -1
}

func (w *world) exec(s Step) {
	ctx := context.Background()
	n := w.nodes[s.Mon%len(w.nodes)]
	name := names[s.Name%len(names)]
	switch s.Op {
	case "log":
		reps := 1
		if s.N > 1 {
			reps = s.N
		}
		for i := 0; i < reps; i++ {
			if i > 0 {
				time.Sleep(10 * time.Millisecond)
			}
			w.log(n, name, w.peers[s.Peer%len(w.peers)], s.Valid, s.TTLMs)
		}
		if reps > 20 {
			w.run.Probe("window_wrapped")
		}
	case "publish":
		if n.mon == nil {
			return
		}
		w.nonce++
		m := &api.Metric{Name: name, Peer: w.peers[n.idx], Value: fmt.Sprintf("%d", w.nonce), Valid: s.Valid}
		m.Expire = time.Now().Add(time.Duration(s.TTLMs) * time.Millisecond).UnixNano()
		w.sent[m.Value] = true
		for _, o := range w.nodes {
			o.mu.Lock()
			o.gossip[key(name, m.Peer)] = true
			o.mu.Unlock()
		}
		w.run.Op()
		err := n.mon.PublishMetric(ctx, m)
		w.run.Ev(fmt.Sprintf("mon%d", n.idx), "publish", "%s v=%s valid=%v ttl=%dms err=%v", name, m.Value, s.Valid, s.TTLMs, err)
	case "peerset":
		w.setPeerset(s.Set)
		w.run.Fault("peerset_change")
		w.run.Ev("sim", "peerset", "%b", s.Set)
	case "rmpeer":
		if n.store == nil {
			return
		}
		p := w.peers[s.Peer%len(w.peers)]
		n.store.RemovePeer(p)
		n.mu.Lock()
		for ni := range names {
			k := key(names[ni], p)
			if len(n.hist[k]) > 0 {
				n.hist[k] = append(n.hist[k], arrival{at: time.Now(), removed: true})
			}
		}
		n.mu.Unlock()
		w.run.Fault("remove_peer")
		w.run.Ev("sim", "rmpeer", "peer%d", s.Peer%len(w.peers))
	case "read":
		w.read(n, name)
	case "cut":
		if w.net != nil && len(w.nodes) > 1 {
			w.net.Isolate(n.idx)
			w.run.Fault("partition")
		}
	case "heal":
		if w.net != nil {
			w.net.Heal()
		}
	}
}

func (w *world) log(n *node, name string, p peer.ID, valid bool, ttlMs int) {
	w.nonce++
	m := &api.Metric{Name: name, Peer: p, Value: fmt.Sprintf("%d", w.nonce), Valid: valid}
	now := time.Now()
	m.Expire = now.Add(time.Duration(ttlMs) * time.Millisecond).UnixNano()
	w.sent[m.Value] = true
	w.run.Op()
	n.mu.Lock()
	n.hist[key(name, p)] = append(n.hist[key(name, p)], arrival{at: now, valid: valid, expire: m.Expire, value: m.Value})
	n.mu.Unlock()
	if ttlMs < 0 {
		w.run.Fault("expired_on_arrival")
	}
	if !valid {
		w.run.Fault("invalid_metric")
	}
	if n.mon != nil {
		n.mon.LogMetric(context.Background(), m)
	} else {
		n.store.Add(m)
	}
	w.run.Ev(fmt.Sprintf("mon%d", n.idx), "log", "%s peer%d v=%s valid=%v ttl=%dms", name, w.peerIdx(p), m.Value, valid, ttlMs)
}

// read checks LatestMetrics / LatestValid against the reference model at this
// instant.
func (w *world) read(n *node, name string) {
	ctx := context.Background()
	var got []*api.Metric
	if n.mon != nil {
		got = n.mon.LatestMetrics(ctx, name)
	} else {
		got = n.store.LatestValid(name)
		if w.peersOn {
			ps, _ := w.peersFunc(ctx)
			got = metrics.PeersetFilter(got, ps)
		}
	}
	now := time.Now().UnixNano()
	w.psMu.Lock()
	member := map[peer.ID]bool{}
	for _, p := range w.peerset {
		member[p] = true
	}
	w.psMu.Unlock()
	seen := map[peer.ID]bool{}
	var desc []string
	for _, m := range got {
		if m == nil {
			w.violate("C09/nil_metric", "", "mon%d: LatestMetrics(%s) returned a nil entry", n.idx, name)
			continue
		}
		desc = append(desc, fmt.Sprintf("peer%d:v%s", w.peerIdx(m.Peer), m.Value))
		if seen[m.Peer] {
			w.violate("C09/two_metrics_for_one_peer", "", "mon%d: LatestMetrics(%s) lists peer%d twice", n.idx, name, w.peerIdx(m.Peer))
		}
		seen[m.Peer] = true
		if m.Name != name {
			w.violate("C09/wrong_name", "", "mon%d: LatestMetrics(%s) returned a %q metric", n.idx, name, m.Name)
		}
		if !m.Valid {
			w.violate("C09/invalid_returned", "", "mon%d: LatestMetrics(%s) returned an invalid metric of peer%d", n.idx, name, w.peerIdx(m.Peer))
		}
		if m.Expire < now {
			w.violate("C09/expired_returned", "", "mon%d: LatestMetrics(%s) returned a metric of peer%d that expired %dms ago", n.idx, name, w.peerIdx(m.Peer), (now-m.Expire)/1e6)
		}
		if w.peersOn && !member[m.Peer] {
			w.violate("C09/non_member_returned", "", "mon%d: LatestMetrics(%s) returned a metric of peer%d, which is not in the peerset", n.idx, name, w.peerIdx(m.Peer))
		}
		if !w.sent[m.Value] {
			w.violate("C09/unknown_metric", "", "mon%d: LatestMetrics(%s) returned value %q that was never sent", n.idx, name, m.Value)
		}
	}
	sort.Strings(desc)
	w.run.Ev(fmt.Sprintf("mon%d", n.idx), "read", "%s -> %v", name, desc)
	w.run.Probe("reads")
	// exact model where every arrival went through the direct path
	n.mu.Lock()
	defer n.mu.Unlock()
	gotBy := map[peer.ID]*api.Metric{}
	for _, m := range got {
		if m != nil {
			gotBy[m.Peer] = m
		}
	}
	for _, p := range w.peers {
		k := key(name, p)
		if n.gossip[k] {
			continue
		}
		h := n.hist[k]
		var last *arrival
		if len(h) > 0 && !h[len(h)-1].removed {
			last = &h[len(h)-1]
		}
		should := last != nil && last.valid && last.expire > now && (!w.peersOn || member[p])
		boundary := last != nil && last.expire == now
		g := gotBy[p]
		switch {
		case should && g == nil && !boundary:
			w.violate("C09/fresh_metric_missing", "", "mon%d: peer%d's latest %s metric (v=%s) is valid, unexpired (%dms left) and from a member, but LatestMetrics omits it", n.idx, w.peerIdx(p), name, last.value, (last.expire-now)/1e6)
		case should && g != nil && g.Value != last.value:
			w.violate("C09/not_the_latest", "", "mon%d: LatestMetrics(%s) returned v=%s for peer%d but the most recently received is v=%s", n.idx, name, g.Value, w.peerIdx(p), last.value)
		case !should && g != nil && !boundary:
			w.violate("C09/stale_or_unknown_returned", "", "mon%d: LatestMetrics(%s) returned v=%s for peer%d; the model says nothing should be returned (latest=%+v member=%v)", n.idx, name, g.Value, w.peerIdx(p), last, member[p])
		}
	}
}

// judgeAlerts evaluates the alert clauses over the recorded history.
//
// For one (name, peer) the arrivals a_0, a_1, ... cut time into episodes: a_i is
// the latest metric during [a_i.at, a_{i+1}.at]. An alert raised in the very
// instant of a renewal may have been decided before or after the renewal
// arrived, so such an alert is attributed to whichever side makes it legal.
func (w *world) judgeAlerts(n *node) {
	n.mu.Lock()
	defer n.mu.Unlock()
	end := time.Now()
	slack := 50 * time.Millisecond
	keys := make([]string, 0, len(n.hist))
	for k := range n.hist {
		keys = append(keys, k)
	}
	sort.Strings(keys)
	used := make([]bool, len(n.alerts))
	for _, k := range keys {
		if n.gossip[k] {
			for ai, al := range n.alerts {
				if key(al.name, al.peer) == k {
					used[ai] = true
				}
			}
			continue
		}
		parts := strings.SplitN(k, "|", 2)
		name, p := parts[0], peer.ID(parts[1])
		h := n.hist[k]
		type episode struct {
			idx             int
			from            time.Time
			to              time.Time
			exp             time.Time
			samples         int
			closedByRemoval bool
			stale           []time.Time
		}
		var eps []*episode
		samples := 0
		for i, a := range h {
			if a.removed {
				samples = 0
				continue
			}
			samples++
			e := &episode{idx: i, from: a.at, to: end, exp: time.Unix(0, a.expire), samples: samples}
			if i+1 < len(h) {
				e.to = h[i+1].at
				e.closedByRemoval = h[i+1].removed
			}
			eps = append(eps, e)
		}
		for ai, al := range n.alerts {
			if al.name != name || al.peer != p {
				continue
			}
			var cands []*episode
			for _, e := range eps {
				if !al.at.Before(e.from) && !al.at.After(e.to) {
					cands = append(cands, e)
				}
			}
			if len(cands) == 0 {
				continue // judged below as alert_without_metric
			}
			used[ai] = true
			var pick *episode
			for _, e := range cands { // first an expired episode that has no alert yet
				if al.at.After(e.exp) && len(e.stale) == 0 {
					pick = e
					break
				}
			}
			if pick == nil {
				for _, e := range cands {
					if al.at.After(e.exp) {
						pick = e
						break
					}
				}
			}
			if pick != nil {
				pick.stale = append(pick.stale, al.at)
				continue
			}
			boundary := false
			for _, e := range cands {
				if al.at.Equal(e.exp) {
					boundary = true
				}
			}
			if boundary {
				continue // exact expiry instant: either answer accepted
			}
			e := cands[len(cands)-1]
			w.violate("C09/alert_while_fresh", "", "mon%d: peer%d/%s alerted at %s while its latest metric (v=%s) only expires at %s", n.idx, w.peerIdx(p), name, w.ts(al.at), h[e.idx].value, w.ts(e.exp))
		}
		var prev *episode
		for _, e := range eps {
			a := h[e.idx]
			ePrev := prev
			prev = e
			w.run.Probe("expiry_episodes_seen")
			if len(e.stale) > 1 {
				var ts []string
				for _, t := range e.stale {
					ts = append(ts, w.ts(t))
				}
				w.violate("C09/alert_repeated", fmt.Sprintf("peersmode=%v samples>=3:%v", w.peersOn, e.samples >= 3),
					"mon%d: peer%d/%s: metric v=%s expired at %s and was not renewed; %d alerts were raised for this one expiry (at %v); window held %d samples", n.idx, w.peerIdx(p), name, a.value, w.ts(e.exp), len(e.stale), ts, e.samples)
			}
			if len(e.stale) == 1 {
				w.run.Probe("alert_once_episodes")
			}
			// at least one, when the expiry rule (not the accrual detector) applies
			start := e.exp
			if start.Before(e.from) {
				start = e.from
			}
			window := e.to.Sub(start)
			need := 3*w.checkInt + slack
			// A renewal that arrives and expires again between two checker
			// rounds is invisible to any sampling checker; whether the peer was
			// "renewed" is then a matter of reading, so an alert is demanded only
			// when the metric stayed fresh for at least one full check interval
			// (or is the first ever received for this name and peer).
			freshFor := e.exp.Sub(e.from)
			seenHealthy := e.idx == 0 || freshFor >= w.checkInt+slack
			// ... or comes after the checker has forgotten the peer: the round after the
			// one that alerted removes the stale metric and with it every memory of
			// that failure, so what arrives later is, to the checker, a first metric
			if ePrev != nil && len(ePrev.stale) > 0 && !ePrev.closedByRemoval && ePrev.idx+1 == e.idx && ePrev.samples < 6 &&
				e.from.After(ePrev.stale[len(ePrev.stale)-1].Add(w.checkInt+slack)) &&
				(!w.peersOn || w.memberThroughout(p, ePrev.stale[0], e.from)) {
				seenHealthy = true
				w.run.Probe("arrival_after_checker_forgot")
			}
			if len(e.stale) == 0 && !e.closedByRemoval && a.valid && e.samples < 6 && window > need && seenHealthy && (!w.peersOn || w.memberThroughout(p, e.from, e.to)) {
				w.violate("C09/alert_missing", fmt.Sprintf("peersmode=%v", w.peersOn),
					"mon%d: peer%d/%s: metric v=%s expired at %s, was not renewed for %s (check interval %s, %d samples) and no alert was raised", n.idx, w.peerIdx(p), name, a.value, w.ts(e.exp), window, w.checkInt, e.samples)
			}
		}
	}
	for ai, al := range n.alerts {
		if used[ai] || n.gossip[key(al.name, al.peer)] {
			continue
		}
		w.violate("C09/alert_without_metric", "", "mon%d: alert for peer%d/%s at %s but no metric of that name from that peer is known", n.idx, w.peerIdx(al.peer), al.name, w.ts(al.at))
	}
}

func (w *world) ts(t time.Time) string {
	return fmt.Sprintf("%dms", t.Sub(w.runStart())/time.Millisecond)
}

var epoch = time.Date(2000, 1, 1, 0, 0, 0, 0, time.UTC)

func (w *world) runStart() time.Time { return epoch }

func (w *world) memberThroughout(p peer.ID, from, to time.Time) bool {
	w.psMu.Lock()
	defer w.psMu.Unlock()
	cur := false
	for _, c := range w.psHist {
		if !c.at.After(from) {
			cur = c.set[p]
			continue
		}
		if c.at.Before(to) && !c.set[p] {
			return false
		}
	}
	return cur
}
