// Package addersim runs the real adder (adder, ipfsadd, single and sharding DAG
// services, BlockAdder multi-destination put) against recording Cluster and
// IPFSConnector RPC services on mocknet peers, with per-(block,destination)
// faults. Serves C13.
package addersim

import (
	"bytes"
	"context"
	"encoding/json"
	"errors"
	"fmt"
	"io"
	"sort"
	"strings"
	"sync"
	"testing"
	"testing/synctest"
	"time"

	blocks "github.com/ipfs/go-block-format"
	bserv "github.com/ipfs/go-blockservice"
	cid "github.com/ipfs/go-cid"
	ds "github.com/ipfs/go-datastore"
	dssync "github.com/ipfs/go-datastore/sync"
	blockstore "github.com/ipfs/go-ipfs-blockstore"
	chunker "github.com/ipfs/go-ipfs-chunker"
	offline "github.com/ipfs/go-ipfs-exchange-offline"
	files "github.com/ipfs/go-ipfs-files"
	ipld "github.com/ipfs/go-ipld-format"
	merkledag "github.com/ipfs/go-merkledag"
	unixfs "github.com/ipfs/go-unixfs"
	unixfile "github.com/ipfs/go-unixfs/file"
	"github.com/ipfs/go-unixfs/importer/balanced"
	ihelper "github.com/ipfs/go-unixfs/importer/helpers"
	"github.com/ipfs/go-unixfs/importer/trickle"
	"github.com/ipfs/ipfs-cluster/adder"
	"github.com/ipfs/ipfs-cluster/adder/sharding"
	"github.com/ipfs/ipfs-cluster/adder/single"
	"github.com/ipfs/ipfs-cluster/api"
	"github.com/ipfs/ipfs-cluster/version"
	peer "github.com/libp2p/go-libp2p-core/peer"
	rpc "github.com/libp2p/go-libp2p-gorpc"
	multihash "github.com/multiformats/go-multihash"

	"verif/simkit"
)

// FileSpec describes one node of the generated tree.
type FileSpec struct {
	Name     string     `json:"name"`
	Size     int        `json:"size,omitempty"`
	Seed     int        `json:"seed,omitempty"`
	Children []FileSpec `json:"children,omitempty"`
	Dir      bool       `json:"dir,omitempty"`
	Target   string     `json:"target,omitempty"` // a symbolic link to this path
}

type Fault struct {
	Block int    `json:"block"` // index of the BlockPut call (global order)
	Dest  int    `json:"dest"`
	Kind  string `json:"kind"` // ipfs | rpc
}

type Step struct {
	Op        string    `json:"op"` // add
	Tree      *FileSpec `json:"tree,omitempty"`
	Faults    []Fault   `json:"faults,omitempty"`
	FailAlloc int       `json:"fail_alloc,omitempty"` // k-th BlockAllocate fails (1-based; 0 none)
	FailPin   int       `json:"fail_pin,omitempty"`   // k-th Cluster.Pin fails
}

type H struct{}

func (H) Name() string { return "addersim" }

func genTree(r *simkit.Rng, chunk int, depth int, many bool) FileSpec {
	if depth > 0 && r.Chance(0.55) {
		d := FileSpec{Name: fmt.Sprintf("d%d", r.Intn(1000)), Dir: true}
		n := r.Range(0, 4)
		if many && depth == 2 {
			n = r.Range(8, 30)
		}
		seen := map[string]bool{}
		for i := 0; i < n; i++ {
			c := genTree(r, chunk, depth-1, many)
			if c.Dir {
				c.Name = fmt.Sprintf("sub%d", i)
			} else {
				c.Name = fmt.Sprintf("f%d.bin", i)
			}
			if r.Chance(0.12) {
				// a symbolic link: its own small UnixFS node, built by a separate path
				// of the importer
				c = FileSpec{Name: fmt.Sprintf("lnk%d", i), Target: []string{"../f0.bin", "f1.bin", "sub0/file.bin", "/etc/hostname", "."}[r.Intn(5)]}
			}
			if r.Chance(0.1) {
				c.Name = "." + c.Name // hidden
			}
			if seen[c.Name] {
				continue
			}
			seen[c.Name] = true
			d.Children = append(d.Children, c)
		}
		return d
	}
	sizes := []int{0, 1, chunk - 1, chunk, chunk + 1, 2*chunk - 1, 2 * chunk, 3*chunk + 7, 10 * chunk, 175*chunk + 3}
	sz := sizes[r.Intn(len(sizes))]
	if sz < 0 {
		sz = 0
	}
	if sz > 600000 {
		sz = 600000
	}
	return FileSpec{Name: "file.bin", Size: sz, Seed: r.Intn(1 << 20)}
}

func (H) Generate(prop, tier string, seed uint64) *simkit.Plan {
	r := simkit.NewRng(seed)
	p := &simkit.Plan{Property: prop, Harness: "addersim", Seed: seed, RTSeed: r.Uint64() % 1000}
	chunks := []int{16, 64, 256, 1024, 4096, 262144}
	chunk := chunks[r.Intn(len(chunks))]
	p.SetKnob("chunk", int64(chunk))
	if r.Chance(0.15) {
		p.SetKnob("rabin", 1)
	}
	p.SetKnob("trickle", int64(r.Intn(2)))
	p.SetKnob("rawleaves", int64(r.Intn(2)))
	p.SetKnob("cidv", int64(r.Intn(2)))
	p.SetKnob("hash", int64(r.Pick(6, 2, 2)))
	p.SetKnob("wrap", int64(r.Pick(3, 1)))
	p.SetKnob("hidden", int64(r.Intn(2)))
	p.SetKnob("local", int64(r.Pick(4, 1)))
	// the add asked for with mode=direct: the adder pins recursively all the same,
	// which has to show in the depth of the pin and not only in its mode
	p.SetKnob("direct", int64(r.Pick(4, 1)))
	npeers := r.Range(1, 4)
	p.SetKnob("peers", int64(npeers))
	fp := [][2]int{{-1, -1}, {1, 1}, {1, 2}, {2, 3}, {3, 3}, {0, 0}}[r.Intn(6)]
	if fp[0] > npeers {
		fp = [2]int{-1, -1}
	}
	// factors left unset (0/0) mean the cluster's default, here a positive pair:
	// BlockAllocate resolves it to concrete peers and the pin must name them
	p.SetKnob("def_rf", int64(1+r.Intn(2)))
	p.SetKnob("rmin", int64(fp[0]))
	p.SetKnob("rmax", int64(fp[1]))
	shard := r.Chance(0.5)
	if shard {
		p.SetKnob("shard", 1)
		// shard size: a few blocks up to everything
		p.SetKnob("shard_size", int64([]int{3 * (chunk + 64), 20 * (chunk + 64), 400 * (chunk + 64), 100 << 20}[r.Intn(4)]))
	}
	st := Step{Op: "add"}
	many := r.Chance(0.15)
	t := genTree(r, chunk, 2, many)
	indirect := tier == "thorough" && r.Chance(0.05) || r.Chance(0.01)
	if indirect {
		// more than 5984 links in one shard: the shard DAG needs an indirect level
		p.SetKnob("chunk", 16)
		p.SetKnob("rabin", 0)
		p.SetKnob("shard", 1)
		p.SetKnob("shard_size", 100<<20)
		p.SetKnob("indirect", 1)
		t = FileSpec{Name: "big.bin", Size: 16*6100 + 5, Seed: r.Intn(1 << 20)}
	}
	if !indirect && (tier == "thorough" && r.Chance(0.05) || r.Chance(0.012)) {
		// a long sharded add: more than 8192 distinct blocks, with directories made
		// before and after the bulk of them (every Mkdir adds the same empty-directory
		// node again: the adder must go on recognising blocks it has sent already)
		p.SetKnob("chunk", 16)
		p.SetKnob("rabin", 0)
		p.SetKnob("shard", 1)
		p.SetKnob("shard_size", int64([]int{400 * (16 + 64), 100 << 20}[r.Intn(2)]))
		p.SetKnob("long_add", 1)
		t = FileSpec{Name: "tree", Dir: true, Children: []FileSpec{
			{Name: "a", Dir: true, Children: []FileSpec{{Name: "s.bin", Size: 5, Seed: r.Intn(1 << 20)}}},
			{Name: "big.bin", Size: 16*8300 + 3, Seed: r.Intn(1 << 20)},
			{Name: "y", Dir: true},
			{Name: "z", Dir: true, Children: []FileSpec{{Name: "t.bin", Size: 7, Seed: r.Intn(1 << 20)}, {Name: "e", Dir: true}}},
		}}
	}
	st.Tree = &t
	// faults
	if r.Chance(0.5) {
		nf := r.Range(1, 4)
		for i := 0; i < nf; i++ {
			k := "ipfs"
			if r.Chance(0.4) {
				k = "rpc"
			}
			st.Faults = append(st.Faults, Fault{Block: r.Pick(3, 2, 1) * r.Range(0, 12), Dest: r.Intn(npeers), Kind: k})
		}
		if r.Chance(0.3) { // the same block fails everywhere
			b := r.Range(0, 10)
			for d := 0; d < npeers; d++ {
				st.Faults = append(st.Faults, Fault{Block: b, Dest: d, Kind: "ipfs"})
			}
		}
	}
	if r.Chance(0.08) {
		st.FailAlloc = r.Range(1, 3)
	}
	if r.Chance(0.12) {
		st.FailPin = r.Range(1, 4)
	}
	p.AddStep(st)
	return p
}

// ------------------------------------------------------------------ services

type dest struct {
	idx    int
	mu     sync.Mutex
	blocks map[string][]byte
}

type world struct {
	run                *simkit.Run
	plan               *simkit.Plan
	net                *simkit.Net
	dests              []*dest
	mu                 sync.Mutex
	putN               map[string]int // block cid -> global put index
	putLog             map[string][]string
	nextPut            int
	faults             map[string]string // "block|dest" -> kind
	allocs             [][]peer.ID
	allocN             int
	pins               []*api.Pin
	pinN               int
	failAlloc, failPin int
	rpcFaults          int // destinations whose link is cut during the add
	npeers             int
	rmin, rmax, defRF  int
}

type clusterSvc struct{ w *world }

func (s *clusterSvc) BlockAllocate(ctx context.Context, in *api.Pin, out *[]peer.ID) error {
	w := s.w
	w.mu.Lock()
	defer w.mu.Unlock()
	w.allocN++
	if w.failAlloc == w.allocN {
		w.run.Fault("block_allocate_failed")
		return errors.New("model cluster: not enough peers to allocate")
	}
	// allocate max peers, rotating, as the real allocator would hand out healthy peers
	var ps []peer.ID
	if in.ReplicationFactorMin < 0 {
		for i := 0; i < w.npeers; i++ {
			ps = append(ps, simkit.TestPeer(i))
		}
	} else {
		k := in.ReplicationFactorMax
		if in.ReplicationFactorMin == 0 && in.ReplicationFactorMax == 0 {
			k = w.defRF // unset: the cluster's default factors
			w.run.Probe("default_factors_resolved")
		}
		if k > w.npeers {
			k = w.npeers
		}
		if k < in.ReplicationFactorMin {
			return errors.New("model cluster: not enough peers to allocate")
		}
		for i := 0; i < k; i++ {
			ps = append(ps, simkit.TestPeer((w.allocN+i)%w.npeers))
		}
	}
	w.allocs = append(w.allocs, ps)
	// (a local gorpc call hands the reply over by reference: give the adder its
	// own copy, so that the recorded allocation is what was answered)
	*out = append([]peer.ID{}, ps...)
	return nil
}

func (s *clusterSvc) Pin(ctx context.Context, in *api.Pin, out *api.Pin) error {
	w := s.w
	w.mu.Lock()
	defer w.mu.Unlock()
	w.pinN++
	if w.failPin == w.pinN {
		w.run.Fault("cluster_pin_failed")
		return errors.New("model cluster: consensus unavailable")
	}
	cp := *in
	w.pins = append(w.pins, &cp)
	*out = cp
	w.run.Ev("cluster", "pin", "%s type=%d depth=%d allocs=%d name=%q", short(in.Cid), in.Type, in.MaxDepth, len(in.Allocations), in.Name)
	return nil
}

type ipfsSvc struct {
	w *world
	d *dest
}

func (s *ipfsSvc) BlockPut(ctx context.Context, in *api.NodeWithMeta, out *struct{}) error {
	w := s.w
	w.mu.Lock()
	k := in.Cid.String()
	n, ok := w.putN[k]
	if !ok {
		n = w.nextPut
		w.putN[k] = n
		w.nextPut++
	}
	kind := w.faults[fmt.Sprintf("%d|%d", n, s.d.idx)]
	w.putLog[k] = append(w.putLog[k], fmt.Sprintf("d%d:#%d:%s", s.d.idx, n, kind))
	w.mu.Unlock()
	if kind == "ipfs" {
		w.run.Fault("blockput_ipfs_error")
		return errors.New("model ipfs: block/put failed")
	}
	s.d.mu.Lock()
	s.d.blocks[k] = append([]byte{}, in.Data...)
	s.d.mu.Unlock()
	return nil
}

func short(c cid.Cid) string {
	s := c.String()
	if len(s) > 6 {
		return s[len(s)-6:]
	}
	return s
}

// ------------------------------------------------------------------ tree building

func content(seed, size int) []byte {
	r := simkit.NewRng(uint64(seed) + 77)
	b := make([]byte, size)
	r.Read(b)
	return b
}

func build(f *FileSpec) files.Node {
	if f.Target != "" {
		return files.NewLinkFile(f.Target, nil)
	}
	if !f.Dir {
		return files.NewBytesFile(content(f.Seed, f.Size))
	}
	m := map[string]files.Node{}
	for i := range f.Children {
		m[f.Children[i].Name] = build(&f.Children[i])
	}
	return files.NewMapDirectory(m)
}

// flatten lists path -> content (nil for directories), honouring the hidden flag.
func flatten(f *FileSpec, prefix string, hidden bool, out map[string][]byte, top bool) {
	// (the hidden flag is applied by the client when it builds the multipart
	// request; inside the adder every entry it receives is added)
	p := prefix
	if f.Target != "" {
		out[p] = []byte("symlink -> " + f.Target)
		return
	}
	if !f.Dir {
		out[p] = content(f.Seed, f.Size)
		return
	}
	out[p+"/"] = nil
	for i := range f.Children {
		c := &f.Children[i]
		flatten(c, p+"/"+c.Name, hidden, out, false)
	}
}

func readBack(ctx context.Context, dserv ipld.DAGService, n files.Node, prefix string, out map[string][]byte) error {
	switch v := n.(type) {
	case *files.Symlink:
		out[prefix] = []byte("symlink -> " + v.Target)
	case files.File:
		b, err := io.ReadAll(v)
		if err != nil {
			return err
		}
		out[prefix] = b
	case files.Directory:
		out[prefix+"/"] = nil
		it := v.Entries()
		for it.Next() {
			if err := readBack(ctx, dserv, it.Node(), prefix+"/"+it.Name(), out); err != nil {
				return err
			}
		}
		return it.Err()
	}
	return nil
}

// ------------------------------------------------------------------ execution

func (H) Execute(t *testing.T, plan *simkit.Plan, run *simkit.Run) {
	run.Begin()
	npeers := int(plan.Knob("peers", 2))
	w := &world{run: run, plan: plan, putN: map[string]int{}, putLog: map[string][]string{}, faults: map[string]string{}, npeers: npeers,
		rmin: int(plan.Knob("rmin", -1)), rmax: int(plan.Knob("rmax", -1)), defRF: int(plan.Knob("def_rf", 1))}
	w.net = simkit.NewNet(run, 2*time.Millisecond)
	var client *rpc.Client
	for i := 0; i < npeers; i++ {
		h := w.net.AddPeer(i)
		d := &dest{idx: i, blocks: map[string][]byte{}}
		w.dests = append(w.dests, d)
		srv := rpc.NewServer(h, version.RPCProtocol)
		srv.RegisterName("IPFSConnector", &ipfsSvc{w: w, d: d})
		if i == 0 {
			srv.RegisterName("Cluster", &clusterSvc{w: w})
			client = rpc.NewClientWithServer(h, version.RPCProtocol, srv)
		}
	}
	w.net.ConnectAll()
	// let the connections settle (identify exchanges its streams right after a
	// connection is made; a call racing with that can see its stream reset): the
	// peers of a cluster have been connected for a long time when content is added
	time.Sleep(500 * time.Millisecond)
	synctest.Wait()
	defer func() {
		w.net.Close()
		synctest.Wait()
	}()
	var s Step
	if err := json.Unmarshal(plan.Steps[0], &s); err != nil {
		panic(err)
	}
	run.Step()
	run.Op()
	w.failAlloc, w.failPin = s.FailAlloc, s.FailPin
	rpcCut := map[int]int{} // dest -> block index at which its link is cut
	for _, f := range s.Faults {
		d := f.Dest % npeers
		if f.Kind == "rpc" {
			if d != 0 {
				rpcCut[d] = f.Block
				w.rpcFaults++
			}
			continue
		}
		w.faults[fmt.Sprintf("%d|%d", f.Block, d)] = "ipfs"
	}
	// a destination whose link is cut when block k is first put: watch the counter
	if len(rpcCut) > 0 {
		done := make(chan struct{})
		defer close(done)
		go func() {
			tk := time.NewTicker(time.Millisecond)
			defer tk.Stop()
			for {
				select {
				case <-done:
					return
				case <-tk.C:
					w.mu.Lock()
					n := w.nextPut
					w.mu.Unlock()
					for d, at := range rpcCut {
						if n >= at && !w.net.IsCut(0, d) {
							w.net.Cut(0, d)
							run.Fault("destination_partitioned")
						}
					}
				}
			}
		}()
	}

	params := api.DefaultAddParams()
	chunk := int(plan.Knob("chunk", 1024))
	params.Chunker = fmt.Sprintf("size-%d", chunk)
	if plan.Knob("rabin", 0) == 1 {
		params.Chunker = fmt.Sprintf("rabin-%d-%d-%d", max(chunk/2, 16), max(chunk, 32), max(chunk*2, 64))
	}
	if plan.Knob("trickle", 0) == 1 {
		params.Layout = "trickle"
	}
	params.RawLeaves = plan.Knob("rawleaves", 0) == 1
	params.CidVersion = int(plan.Knob("cidv", 0))
	// (raw leaves are only the default with CIDv1: an explicit raw-leaves=false is
	// a request like any other, and the reference importer below is given the same)
	params.HashFun = []string{"sha2-256", "sha2-512", "blake2b-256"}[plan.Knob("hash", 0)]
	if params.HashFun != "sha2-256" {
		params.CidVersion = 1
	}
	if params.CidVersion == 1 && !params.RawLeaves {
		run.Probe("cidv1_without_raw_leaves")
	}
	if plan.Knob("direct", 0) == 1 {
		params.Mode = api.PinModeDirect
		run.Probe("add_asked_in_direct_mode")
	}
	params.Wrap = plan.Knob("wrap", 0) == 1
	params.Hidden = plan.Knob("hidden", 0) == 1
	params.Local = plan.Knob("local", 0) == 1
	params.ReplicationFactorMin, params.ReplicationFactorMax = w.rmin, w.rmax
	params.Name = "content"
	params.Metadata = map[string]string{"k": "v"}
	params.Shard = plan.Knob("shard", 0) == 1
	if params.Shard {
		params.ShardSize = uint64(plan.Knob("shard_size", 100<<20))
	}

	tree := s.Tree
	mkInput := func() files.Directory {
		return files.NewSliceDirectory([]files.DirEntry{files.FileEntry(tree.Name, build(tree))})
	}
	var dgs adder.ClusterDAGService
	if params.Shard {
		dgs = sharding.New(client, params.PinOptions, nil)
	} else {
		dgs = single.New(client, params.PinOptions, params.Local)
	}
	ctx := context.Background()
	ad := adder.New(dgs, params, nil)
	root, err := ad.FromFiles(ctx, mkInput())
	synctest.Wait()
	run.Ev("client", "add", "root=%v err=%v shard=%v chunker=%s blocks=%d pins=%d", root, err, params.Shard, params.Chunker, w.nextPut, len(w.pins))

	// ---- the reference: the same tree through the adder on a plain in-memory DAG service
	refStore := newStore()
	refRoot, refErr := adder.New(&plainDAG{DAGService: refStore.dserv}, refParams(params), nil).FromFiles(ctx, mkInput())
	if refErr != nil {
		panic(fmt.Sprintf("reference add failed: %v", refErr))
	}

	w.judge(params, tree, root, err, refRoot, refStore)
}

func refParams(p *api.AddParams) *api.AddParams {
	q := *p
	q.Shard = false
	return &q
}

type store struct {
	bs    blockstore.Blockstore
	dserv ipld.DAGService
}

func newStore() *store {
	bs := blockstore.NewBlockstore(dssync.MutexWrap(ds.NewMapDatastore()))
	return &store{bs: bs, dserv: merkledag.NewDAGService(bserv.New(bs, offline.Exchange(bs)))}
}

// plainDAG is an ordinary DAG service with a no-op Finalize: the adder's
// importer pipeline without any cluster DAG service behind it.
type plainDAG struct{ ipld.DAGService }

func (p *plainDAG) Finalize(ctx context.Context, root cid.Cid) (cid.Cid, error) { return root, nil }

func (w *world) judge(params *api.AddParams, tree *FileSpec, root cid.Cid, err error, refRoot cid.Cid, ref *store) {
	run := w.run
	ctx := context.Background()
	injected := len(w.faults) > 0 || w.failAlloc > 0 || w.failPin > 0 || w.rpcFaults > 0
	rootPinned := func() *api.Pin {
		for _, p := range w.pins {
			if (p.Type == api.DataType || p.Type == api.MetaType) && p.Cid.Equals(refRoot) {
				return p
			}
		}
		return nil
	}
	if err != nil {
		run.Probe("adds_failed")
		if strings.Contains(err.Error(), "doesn't fit in empty shard") {
			run.Probe("shard_size_too_small_refused") // a legitimate refusal of the configuration
		} else if !injected && !w.anyCut() {
			run.Violate("C13/add_failed_without_fault", "", "the add failed without any injected fault: %v", err)
		}
		if p := rootPinned(); p != nil {
			run.Violate("C13/root_pinned_on_failure", "", "the add returned an error (%v) but the root was pinned (type %d)", err, p.Type)
		}
		return
	}
	run.Probe("adds_succeeded")
	// independent single-file reference: the go-unixfs importer called directly
	if !tree.Dir && !params.Wrap {
		if r2, e2 := importFile(content(tree.Seed, tree.Size), params); e2 == nil {
			run.Probe("importer_reference_checked")
			if !r2.Equals(root) {
				run.Violate("C13/root_differs_from_importer", "", "cluster add returned %s, the go-unixfs importer computes %s for the same bytes and parameters", root, r2)
			}
		}
	}
	// independent reference for whole trees (directories, symbolic links)
	if tree.Dir {
		if tn, e2 := importTree(tree, params); e2 == nil {
			want := tn.Cid()
			if params.Wrap {
				if prefix, e3 := cidPrefix(params); e3 == nil {
					wd := unixfs.EmptyDirNode()
					wd.SetCidBuilder(prefix)
					if wd.AddNodeLink(tree.Name, tn) == nil {
						want = wd.Cid()
					}
				}
			}
			run.Probe("tree_reference_checked")
			if !want.Equals(root) {
				run.Violate("C13/root_differs_from_importer", "tree", "cluster add returned %s; go-unixfs/go-merkledag compute %s for the same tree (directories, files, symbolic links) with cid-version=%d hash=%s", root, want, params.CidVersion, params.HashFun)
			}
		}
	}
	if !root.Equals(refRoot) {
		run.Violate("C13/root_differs", fmt.Sprintf("shard=%v", params.Shard), "root %s differs from the root %s computed without sharding/cluster DAG service for the same tree and parameters", root, refRoot)
		return
	}
	// union of delivered blocks
	union := newStore()
	nblocks := 0
	for _, d := range w.dests {
		d.mu.Lock()
		for k, data := range d.blocks {
			c, _ := cid.Decode(k)
			b, _ := blocks.NewBlockWithCid(data, c)
			union.bs.Put(b)
			nblocks++
		}
		d.mu.Unlock()
	}
	// closed under links from the root
	seen := map[string]bool{}
	var walk func(c cid.Cid) error
	walk = func(c cid.Cid) error {
		if seen[c.String()] {
			return nil
		}
		seen[c.String()] = true
		nd, err := union.dserv.Get(ctx, c)
		if err != nil {
			_, put := w.putN[c.String()]
			_, hasRef := ref.bs.Get(c)
			return fmt.Errorf("block %s is linked from the root but was delivered to no destination: %v (BlockPut was called for it: %v %v; the reference run produced it: %v)", c, err, put, w.putLog[c.String()], hasRef == nil)
		}
		for _, l := range nd.Links() {
			if err := walk(l.Cid); err != nil {
				return err
			}
		}
		return nil
	}
	if err := walk(root); err != nil {
		run.Violate("C13/not_closed_under_links", "", "%v", err)
		return
	}
	// every file reads back identical
	rn, gerr := union.dserv.Get(ctx, root)
	if gerr != nil {
		run.Violate("C13/not_closed_under_links", "root", "root block missing: %v", gerr)
		return
	}
	fn, ferr := unixfile.NewUnixfsFile(ctx, union.dserv, rn)
	if ferr != nil {
		run.Violate("C13/unreadable", "", "the delivered DAG is not a readable unixfs tree: %v", ferr)
		return
	}
	got := map[string][]byte{}
	if err := readBack(ctx, union.dserv, fn, "", got); err != nil {
		run.Violate("C13/unreadable", "", "reading the content back from the delivered blocks failed: %v", err)
		return
	}
	want := map[string][]byte{}
	if params.Wrap {
		want["/"] = nil
		flatten(tree, "/"+tree.Name, params.Hidden, want, true)
	} else {
		flatten(tree, "", params.Hidden, want, true)
	}
	if len(got) != len(want) {
		run.Violate("C13/content_differs", "entries", "read back %d entries %v, the input has %d %v", len(got), keys(got), len(want), keys(want))
	}
	for k, v := range want {
		g, ok := got[k]
		if !ok {
			run.Violate("C13/content_differs", "missing", "entry %q of the input is missing from the delivered DAG", k)
			continue
		}
		if !bytes.Equal(g, v) {
			run.Violate("C13/content_differs", "bytes", "file %q reads back %d bytes that differ from the %d input bytes", k, len(g), len(v))
		}
	}
	run.Probe("content_read_back")

	// pins
	if !params.Shard {
		if len(w.pins) != 1 {
			run.Violate("C13/wrong_pins", "single", "a non-sharded add must pin exactly the root, %d pins reached Cluster.Pin", len(w.pins))
			return
		}
		p := w.pins[0]
		if !p.Cid.Equals(root) || p.Type != api.DataType {
			run.Violate("C13/wrong_pins", "single", "the pin is %s type %d, the root is %s", p.Cid, p.Type, root)
		}
		if p.Name != params.Name || p.ReplicationFactorMin != params.ReplicationFactorMin || p.ReplicationFactorMax != params.ReplicationFactorMax || p.Metadata["k"] != "v" || p.Mode != api.PinModeRecursive || p.MaxDepth != -1 {
			run.Violate("C13/pin_options_differ", "", "root pinned with name=%q rf=%d/%d meta=%v mode=%d max_depth=%d (added content is pinned recursively, whole depth); requested name=%q rf=%d/%d", p.Name, p.ReplicationFactorMin, p.ReplicationFactorMax, p.Metadata, p.Mode, p.MaxDepth, params.Name, params.ReplicationFactorMin, params.ReplicationFactorMax)
		}
		// (with a negative factor adder.Pin clears the allocations: pinned everywhere)
		if len(w.allocs) >= 1 && params.ReplicationFactorMin >= 0 {
			if peersKey(p.Allocations) != peersKey(w.allocs[0]) {
				run.Violate("C13/pin_allocations_differ", "", "blocks were sent to %v but the root is pinned with allocations %v", idx(w.allocs[0]), idx(p.Allocations))
			}
		}
		if !injected && !params.Local && len(w.allocs) >= 1 {
			for c := range seen {
				for _, p := range w.allocs[0] {
					if !w.holds(p, c) {
						run.Violate("C13/block_not_on_allocation", "single", "block %s of the content was not delivered to allocated peer %v (it was put on %v)", c[len(c)-6:], idx([]peer.ID{p}), w.putLog[c])
						break
					}
				}
			}
			run.Probe("blocks_on_allocations_checked")
		}
		run.Probe("single_pin_checked")
		return
	}
	var meta, cdag *api.Pin
	var shards []*api.Pin
	for _, p := range w.pins {
		switch p.Type {
		case api.MetaType:
			meta = p
		case api.ClusterDAGType:
			cdag = p
		case api.ShardType:
			shards = append(shards, p)
		default:
			run.Violate("C13/wrong_pins", "sharded", "unexpected pin type %d for %s", p.Type, p.Cid)
		}
	}
	if meta == nil || cdag == nil || len(shards) == 0 {
		run.Violate("C13/wrong_pins", "sharded", "a sharded add must pin a meta entry, a cluster-DAG entry and shard entries; got meta=%v clusterDAG=%v shards=%d", meta != nil, cdag != nil, len(shards))
		return
	}
	if !meta.Cid.Equals(root) || meta.Reference == nil || !meta.Reference.Equals(cdag.Cid) {
		run.Violate("C13/wrong_pins", "meta", "meta entry %s must be the root %s and reference the cluster-DAG %s", meta.Cid, root, cdag.Cid)
	}
	// cluster-DAG block is stored locally; its links are the shards
	cnd, cerr := union.dserv.Get(ctx, cdag.Cid)
	if cerr != nil {
		run.Violate("C13/cluster_dag_missing", "", "the cluster-DAG block %s was not delivered: %v", cdag.Cid, cerr)
		return
	}
	shardSet := map[string]*api.Pin{}
	shardOrder := map[string]int{}
	for i, sp := range shards {
		shardSet[sp.Cid.String()] = sp
		if _, dup := shardOrder[sp.Cid.String()]; !dup {
			shardOrder[sp.Cid.String()] = i
		}
	}
	if len(cnd.Links()) != len(shards) {
		run.Violate("C13/wrong_pins", "shards", "the cluster-DAG links %d shards, %d shard entries were pinned", len(cnd.Links()), len(shards))
	}
	covered := map[string]int{}
	for _, l := range cnd.Links() {
		sp := shardSet[l.Cid.String()]
		if sp == nil {
			run.Violate("C13/wrong_pins", "shards", "cluster-DAG links shard %s which was not pinned", l.Cid)
			continue
		}
		// the shard is pinned with the allocations its blocks were sent to: one
		// BlockAllocate answer per shard, in order
		if si := shardOrder[l.Cid.String()]; si < len(w.allocs) && params.ReplicationFactorMin >= 0 {
			if peersKey(sp.Allocations) != peersKey(w.allocs[si]) {
				run.Violate("C13/pin_allocations_differ", "shard", "the blocks of shard #%d were sent to %v but the shard is pinned with allocations %v", si, idx(w.allocs[si]), idx(sp.Allocations))
			}
			run.Probe("shard_allocations_checked")
		}
		// depth of the shard's link DAG and the blocks it covers
		depth, leaves, size, derr := shardLeaves(ctx, union.dserv, l.Cid, seen)
		if derr != nil {
			run.Violate("C13/shard_unreadable", "", "shard %s: %v", l.Cid, derr)
			continue
		}
		// without faults every block a shard links sits on every peer the shard is
		// allocated to (that is where pinning the shard will look for it)
		if si := shardOrder[l.Cid.String()]; !injected && !params.Local && si < len(w.allocs) {
			for _, c := range leaves {
				for _, p := range w.allocs[si] {
					if !w.holds(p, c) {
						run.Violate("C13/block_not_on_allocation", "shard", "block %s is linked by shard #%d, allocated to %v, but was not delivered to peer %v (it was put on %v)", c[len(c)-6:], si, idx(w.allocs[si]), idx([]peer.ID{p}), w.putLog[c])
						break
					}
				}
			}
			run.Probe("shard_blocks_on_allocations_checked")
		}
		if int(sp.MaxDepth) < depth {
			run.Violate("C13/shard_depth_too_small", fmt.Sprintf("depth=%d maxdepth=%d", depth, sp.MaxDepth), "shard %s is pinned with max depth %d but its links are %d levels deep (%d links): pinning it does not cover its blocks", short(l.Cid), sp.MaxDepth, depth, len(leaves))
		}
		if depth > 1 {
			run.Probe("indirect_shard_dag")
		}
		if size >= params.ShardSize {
			run.Violate("C13/shard_over_limit", "", "shard %s holds %d bytes, the limit is %d", short(l.Cid), size, params.ShardSize)
		}
		for _, c := range leaves {
			covered[c]++
		}
	}
	// the shards' links partition the data blocks
	for c := range seen {
		if covered[c] != 1 {
			run.Violate("C13/shards_do_not_partition", fmt.Sprintf("count=%d", covered[c]), "block %s of the content is linked by %d shards (must be exactly one)", c[len(c)-6:], covered[c])
			break
		}
	}
	// (shards may also link blocks that are not in the final DAG: directory
	// nodes the importer emitted before they were complete are delivered too)
	run.Probe("sharded_pins_checked")
}

// holds reports whether destination peer p has block c in its own store.
func (w *world) holds(p peer.ID, c string) bool {
	for i := range w.dests {
		if simkit.TestPeer(i) == p {
			w.dests[i].mu.Lock()
			_, ok := w.dests[i].blocks[c]
			w.dests[i].mu.Unlock()
			return ok
		}
	}
	return false
}

func (w *world) anyCut() bool {
	for d := 1; d < w.npeers; d++ {
		if w.net.IsCut(0, d) {
			return true
		}
	}
	return false
}

// shardLeaves walks a shard's (possibly two-level) link DAG down to the data
// blocks: returns its depth, the linked data block CIDs and their total size.
func shardLeaves(ctx context.Context, dserv ipld.DAGService, c cid.Cid, content map[string]bool) (int, []string, uint64, error) {
	nd, err := dserv.Get(ctx, c)
	if err != nil {
		return 0, nil, 0, fmt.Errorf("shard block not delivered: %v", err)
	}
	var leaves []string
	var size uint64
	depth := 1
	for _, l := range nd.Links() {
		if l.Cid.Type() != cid.DagCBOR { // data blocks are dag-pb or raw; the shard's own nodes are CBOR
			leaves = append(leaves, l.Cid.String())
			if b, err := dserv.Get(ctx, l.Cid); err == nil {
				size += uint64(len(b.RawData()))
			}
			continue
		}
		// an indirect node
		d2, l2, s2, err := shardLeaves(ctx, dserv, l.Cid, content)
		if err != nil {
			return 0, nil, 0, err
		}
		if d2+1 > depth {
			depth = d2 + 1
		}
		leaves = append(leaves, l2...)
		size += s2
	}
	return depth, leaves, size, nil
}

func importFile(data []byte, params *api.AddParams) (cid.Cid, error) {
	nd, err := importNode(data, params)
	if err != nil {
		return cid.Undef, err
	}
	return nd.Cid(), nil
}

func cidPrefix(params *api.AddParams) (*cid.Prefix, error) {
	prefix, err := merkledag.PrefixForCidVersion(params.CidVersion)
	if err != nil {
		return nil, err
	}
	prefix.MhType = multihash.Names[params.HashFun]
	prefix.MhLength = -1
	return &prefix, nil
}

// importTree computes the root of a file tree with go-unixfs and go-merkledag
// alone (no code of ipfs-cluster): files through the importer's layouts,
// symbolic links and directories as plain UnixFS nodes, every node built with
// the requested CID version and hash function.
func importTree(f *FileSpec, params *api.AddParams) (ipld.Node, error) {
	prefix, err := cidPrefix(params)
	if err != nil {
		return nil, err
	}
	switch {
	case f.Target != "":
		d, err := unixfs.SymlinkData(f.Target)
		if err != nil {
			return nil, err
		}
		n := merkledag.NodeWithData(d)
		n.SetCidBuilder(prefix)
		return n, nil
	case !f.Dir:
		return importNode(content(f.Seed, f.Size), params)
	}
	dir := unixfs.EmptyDirNode()
	dir.SetCidBuilder(prefix)
	cs := append([]FileSpec{}, f.Children...)
	sort.Slice(cs, func(i, j int) bool { return cs[i].Name < cs[j].Name })
	for i := range cs {
		n, err := importTree(&cs[i], params)
		if err != nil {
			return nil, err
		}
		if err := dir.AddNodeLink(cs[i].Name, n); err != nil {
			return nil, err
		}
	}
	return dir, nil
}

func importNode(data []byte, params *api.AddParams) (ipld.Node, error) {
	st := newStore()
	chnk, err := chunker.FromString(bytes.NewReader(data), params.Chunker)
	if err != nil {
		return nil, err
	}
	prefix, err := merkledag.PrefixForCidVersion(params.CidVersion)
	if err != nil {
		return nil, err
	}
	prefix.MhType = multihash.Names[params.HashFun]
	prefix.MhLength = -1
	dbp := ihelper.DagBuilderParams{Dagserv: st.dserv, RawLeaves: params.RawLeaves, Maxlinks: ihelper.DefaultLinksPerBlock, CidBuilder: &prefix}
	db, err := dbp.New(chnk)
	if err != nil {
		return nil, err
	}
	var nd ipld.Node
	if params.Layout == "trickle" {
		nd, err = trickle.Layout(db)
	} else {
		nd, err = balanced.Layout(db)
	}
	if err != nil {
		return nil, err
	}
	return nd, nil
}

func keys(m map[string][]byte) []string {
	var ks []string
	for k := range m {
		ks = append(ks, k)
	}
	sort.Strings(ks)
	if len(ks) > 12 {
		ks = append(ks[:12], "…")
	}
	return ks
}

func peersKey(ps []peer.ID) string {
	s := api.PeersToStrings(ps)
	sort.Strings(s)
	return strings.Join(s, ",")
}

func idx(ps []peer.ID) []int {
	var out []int
	for _, p := range ps {
		for i := 0; i < 8; i++ {
			if simkit.TestPeer(i) == p {
				out = append(out, i)
			}
		}
	}
	return out
}
