// Package trackersim runs the real stateless pin tracker (pintracker/stateless +
// pintracker/optracker) against a model shared state and a model IPFS daemon
// behind the IPFSConnector RPC service. Serves C05, C06 and (race build) C18.
package trackersim

import (
	"context"
	"encoding/json"
	"fmt"
	"sort"
	"strings"
	"sync"
	"testing"
	"testing/synctest"
	"time"

	cid "github.com/ipfs/go-cid"
	"github.com/ipfs/ipfs-cluster/api"
	"github.com/ipfs/ipfs-cluster/pintracker/stateless"
	"github.com/ipfs/ipfs-cluster/state"
	peer "github.com/libp2p/go-libp2p-core/peer"
	rpc "github.com/libp2p/go-libp2p-gorpc"

	"verif/simkit"
)

// Step is one scheduled action of a tracker plan.
type Step struct {
	Op      string `json:"op"` // track untrack recover recoverall release hold script down quiesce burst
	Cid     int    `json:"cid,omitempty"`
	Kind    string `json:"kind,omitempty"` // local remote everywhere meta
	Direct  bool   `json:"direct,omitempty"`
	K       int    `json:"k,omitempty"`
	Outcome string `json:"outcome,omitempty"` // ok err lost
	On      bool   `json:"on,omitempty"`
	N       int    `json:"n,omitempty"`
	DelayMs int    `json:"delay_ms,omitempty"`
	Overlap bool   `json:"overlap,omitempty"` // do not wait for quiescence after issuing (C18)
}

type H struct{}

func (H) Name() string { return "trackersim" }

// ---------------------------------------------------------------- generation

func (H) Generate(prop, tier string, seed uint64) *simkit.Plan {
	r := simkit.NewRng(seed)
	p := &simkit.Plan{Property: prop, Harness: "trackersim", Seed: seed, RTSeed: r.Uint64() % 1000}
	if r.Chance(0.3) {
		p.RTSeed = 0
	}
	ncids := r.Range(2, 4)
	p.SetKnob("ncids", int64(ncids))
	p.SetKnob("concurrent", int64(r.Range(1, 4)))
	q := r.Range(1, 8)
	if r.Chance(0.3) {
		q = 1
	}
	p.SetKnob("queue", int64(q))
	// cid roles: one cid may be a meta cid for the whole plan.
	meta := -1
	if r.Chance(0.3) {
		meta = r.Intn(ncids)
	}
	p.SetKnob("meta", int64(meta))
	// per-cid mode floor: modes are monotone direct -> recursive (DESIGN C05).
	recursive := make([]bool, ncids)
	for i := range recursive {
		recursive[i] = r.Chance(0.5)
	}
	// initial conditions: entries present in the state and/or the daemon
	// before the tracker sees any instruction.
	for i := 0; i < ncids; i++ {
		if i == meta || !r.Chance(0.25) {
			continue
		}
		st := Step{Op: "init", Cid: i, Kind: pickKind(r), Direct: !recursive[i], K: r.Intn(3)} // K: 0 daemon lacks it, 1 daemon has it right, 2 daemon has it direct
		p.AddStep(st)
	}
	n := r.Range(5, 40)
	if tier == "thorough" && r.Chance(0.3) {
		n = r.Range(30, 90)
	}
	holdBias := r.Float() // how often calls are parked in this run
	failBias := r.Float() * 0.5
	c18 := prop == "C18"
	for i := 0; i < n; i++ {
		st := Step{DelayMs: r.Pick(6, 2, 1) * r.Range(0, 40)}
		switch r.Pick(35, 20, 8, 5, 22, 6, 8, 4, 3) {
		case 0:
			st.Op = "track"
			st.Cid = r.Intn(ncids)
			if st.Cid == meta {
				st.Kind = "meta"
			} else {
				st.Kind = pickKind(r)
				if !recursive[st.Cid] && r.Chance(0.2) {
					recursive[st.Cid] = true // upgrade, never downgrade
				}
				st.Direct = !recursive[st.Cid]
			}
		case 1:
			st.Op = "untrack"
			st.Cid = r.Intn(ncids)
			if st.Cid == meta {
				st.Op = "track"
				st.Kind = "meta"
			}
		case 2:
			st.Op = "recover"
			st.Cid = r.Intn(ncids)
		case 3:
			st.Op = "recoverall"
		case 4:
			st.Op = "release"
			st.K = r.Intn(8)
			st.Outcome = pickOutcome(r, failBias)
		case 5:
			st.Op = "hold"
			st.On = r.Float() < holdBias
		case 6:
			st.Op = "script"
			st.N = r.Range(1, 3)
			st.Outcome = pickOutcome(r, 0.9)
		case 7:
			st.Op = "quiesce"
			st.Outcome = pickOutcome(r, failBias)
		case 8:
			st.Op = "burst" // several tracks of distinct cids at one instant against a stalled daemon
			st.N = r.Range(2, ncids)
		}
		if c18 && r.Chance(0.6) {
			st.Overlap = true
		}
		p.AddStep(st)
	}
	return p
}

func pickKind(r *simkit.Rng) string {
	return []string{"local", "local", "everywhere", "remote"}[r.Intn(4)]
}

func pickOutcome(r *simkit.Rng, failBias float64) string {
	if r.Float() < failBias {
		if r.Chance(0.3) {
			return "lost"
		}
		if r.Chance(0.25) {
			return "errc"
		}
		return "err"
	}
	return "ok"
}

// ---------------------------------------------------------------- model state

type modelState struct {
	mu   sync.Mutex
	pins map[string]*api.Pin
}

func (m *modelState) List(ctx context.Context) ([]*api.Pin, error) {
	m.mu.Lock()
	defer m.mu.Unlock()
	ks := make([]string, 0, len(m.pins))
	for k := range m.pins {
		ks = append(ks, k)
	}
	sort.Strings(ks)
	out := make([]*api.Pin, 0, len(ks))
	for _, k := range ks {
		cp := *m.pins[k]
		out = append(out, &cp)
	}
	return out, nil
}

func (m *modelState) Has(ctx context.Context, c cid.Cid) (bool, error) {
	m.mu.Lock()
	defer m.mu.Unlock()
	_, ok := m.pins[c.String()]
	return ok, nil
}

func (m *modelState) Get(ctx context.Context, c cid.Cid) (*api.Pin, error) {
	m.mu.Lock()
	defer m.mu.Unlock()
	p, ok := m.pins[c.String()]
	if !ok {
		return nil, state.ErrNotFound
	}
	cp := *p
	return &cp, nil
}

func (m *modelState) set(p *api.Pin) { m.mu.Lock(); m.pins[p.Cid.String()] = p; m.mu.Unlock() }
func (m *modelState) del(c cid.Cid)  { m.mu.Lock(); delete(m.pins, c.String()); m.mu.Unlock() }

// ---------------------------------------------------------------- execution

type world struct {
	run     *simkit.Run
	plan    *simkit.Plan
	self    peer.ID
	other   peer.ID
	st      *modelState
	ipfs    *simkit.ModelIPFS
	tr      *stateless.Tracker
	cids    []cid.Cid
	touched map[int]bool // cids that received an instruction or an initial state entry
	// remoteQuiet[ci]: stamp of the last instruction for the CID if that was "it
	// is remote now", issued while nothing was pending or parked and the daemon
	// held the CID (0 otherwise): that instruction must have tried to unpin it
	remoteQuiet map[int]int
	mu          sync.Mutex
	pending     int               // client calls not yet returned
	instrErr    map[int]int       // cid index -> seq of the last instruction/recover error
	want        func(string) bool // clause filter
}

func (w *world) violate(clause, sig, format string, a ...interface{}) {
	if !w.want(clause) {
		return
	}
	w.run.Violate(clause, sig, format, a...)
}

func mkPin(w *world, i int, kind string, direct bool) *api.Pin {
	p := api.PinCid(w.cids[i])
	p.Name = fmt.Sprintf("n%d", i)
	switch kind {
	case "local":
		p.ReplicationFactorMin, p.ReplicationFactorMax = 1, 2
		p.Allocations = []peer.ID{w.self}
	case "remote":
		p.ReplicationFactorMin, p.ReplicationFactorMax = 1, 1
		p.Allocations = []peer.ID{w.other}
	case "everywhere":
		p.ReplicationFactorMin, p.ReplicationFactorMax = -1, -1
		p.Allocations = []peer.ID{}
	case "meta":
		p.Type = api.MetaType
		// a meta entry carries the replication factors the content was added with
		// (sharded adds with --rmin/--rmax) and never has allocations
		switch (int(w.plan.Seed) + i) % 3 {
		case 0:
			p.ReplicationFactorMin, p.ReplicationFactorMax = -1, -1
		case 1:
			p.ReplicationFactorMin, p.ReplicationFactorMax = 2, 2
		default:
			p.ReplicationFactorMin, p.ReplicationFactorMax = 1, 3
		}
		ref := w.cids[(i+1)%len(w.cids)]
		p.Reference = &ref
		p.MaxDepth = 0
		return p
	}
	if direct {
		p.Mode = api.PinModeDirect
		p.MaxDepth = 0
	} else {
		p.Mode = api.PinModeRecursive
		p.MaxDepth = -1
	}
	return p
}

func kindOf(w *world, p *api.Pin) string {
	switch {
	case p.Type == api.MetaType:
		return "meta"
	case p.IsPinEverywhere():
		return "everywhere"
	case p.IsRemotePin(w.self):
		return "remote"
	default:
		return "local"
	}
}

func (H) Execute(t *testing.T, plan *simkit.Plan, run *simkit.Run) {
	run.Begin()
	w := &world{run: run, plan: plan, touched: map[int]bool{}, instrErr: map[int]int{}, remoteQuiet: map[int]int{}}
	prop := plan.Property
	w.want = func(clause string) bool {
		return prop == "ALL" || strings.HasPrefix(clause, prop+"/") || clause == "deadlock"
	}
	w.self = simkit.TestPeer(1)
	w.other = simkit.TestPeer(2)
	ncids := int(plan.Knob("ncids", 3))
	for i := 0; i < ncids; i++ {
		w.cids = append(w.cids, simkit.TestCid(i))
	}
	w.st = &modelState{pins: map[string]*api.Pin{}}
	w.ipfs = simkit.NewModelIPFS(run, "ipfs")

	cfg := &stateless.Config{}
	cfg.Default()
	cfg.ConcurrentPins = int(plan.Knob("concurrent", 2))
	cfg.MaxPinQueueSize = int(plan.Knob("queue", 4))
	getState := func(ctx context.Context) (state.ReadOnly, error) { return w.st, nil }
	w.tr = stateless.New(cfg, w.self, "sim", getState)
	srv := rpc.NewServer(nil, "/sim/rpc")
	if err := srv.RegisterName("IPFSConnector", &simkit.IPFSConnectorSvc{M: w.ipfs}); err != nil {
		panic(err)
	}
	w.tr.SetClient(rpc.NewClientWithServer(nil, "/sim/rpc", srv))
	defer func() {
		// let parked calls go so that no goroutine outlives the bubble
		w.ipfs.SetHold(false)
		for w.ipfs.Release(0, "ok") {
		}
		w.tr.Shutdown(context.Background())
		synctest.Wait()
	}()

	for _, raw := range plan.Steps {
		var s Step
		if err := json.Unmarshal(raw, &s); err != nil {
			panic(err)
		}
		if s.DelayMs > 0 {
			time.Sleep(time.Duration(s.DelayMs) * time.Millisecond)
		}
		run.Step()
		w.exec(s)
		if !s.Overlap {
			synctest.Wait()
		}
	}
	synctest.Wait()
	// Phase 1: let everything in flight finish (with whatever outcomes the
	// plan scripted), then judge the quiescent peer.
	w.quiesce("ok")
	w.checkQuiescent("final")
	// Phase 2: IPFS healthy, recover rounds, judge again.
	w.recoverRound()
}

// client runs f as a client call in its own goroutine.
func (w *world) client(name string, f func() error) {
	w.run.Op()
	w.mu.Lock()
	w.pending++
	w.mu.Unlock()
	inv := w.run.Ev("client", "invoke", "%s", name)
	go func() {
		err := f()
		res := "ok"
		if err != nil {
			res = "err:" + err.Error()
		}
		w.run.Ev("client", "return", "%s #%d -> %s", name, inv, res)
		w.mu.Lock()
		w.pending--
		w.mu.Unlock()
	}()
}

func (w *world) exec(s Step) {
	ctx := context.Background()
	n := len(w.cids)
	ci := ((s.Cid % n) + n) % n
	switch s.Op {
	case "init":
		p := mkPin(w, ci, s.Kind, s.Direct)
		w.st.set(p)
		w.touched[ci] = true
		switch s.K % 3 {
		case 1:
			if s.Kind != "remote" {
				w.ipfs.ForcePin(w.cids[ci], map[bool]string{true: "direct", false: "recursive"}[s.Direct])
			}
		case 2:
			w.ipfs.ForcePin(w.cids[ci], "direct")
		}
		w.run.Ev("sim", "init", "cid%d %s direct=%v daemon=%d", ci, s.Kind, s.Direct, s.K%3)
	case "track":
		p := mkPin(w, ci, s.Kind, s.Direct)
		if old, err := w.st.Get(ctx, p.Cid); err == nil {
			// keep the history well-formed: the cluster refuses type changes
			// and recursive -> direct downgrades, so the tracker never sees them.
			if (old.Type == api.MetaType) != (p.Type == api.MetaType) {
				return
			}
			if old.MaxDepth == -1 && p.MaxDepth == 0 && p.Type != api.MetaType {
				p.Mode, p.MaxDepth = api.PinModeRecursive, -1
			}
		}
		w.st.set(p) // state first, then the instruction (what consensus does)
		w.touched[ci] = true
		w.remoteQuiet[ci] = 0
		if kindOf(w, p) == "remote" {
			synctest.Wait()
			w.mu.Lock()
			idle := w.pending == 0
			w.mu.Unlock()
			if idle && w.ipfs.Parked() == 0 && w.ipfs.Holds(p.Cid) != "" {
				w.remoteQuiet[ci] = w.run.Stamp()
			}
		}
		w.client(fmt.Sprintf("track cid%d %s %s", ci, kindOf(w, p), modeName(p)), func() error {
			err := w.tr.Track(ctx, p)
			if err != nil {
				w.noteInstrErr(ci)
			}
			return err
		})
	case "untrack":
		w.st.del(w.cids[ci])
		w.touched[ci] = true
		w.remoteQuiet[ci] = 0
		w.client(fmt.Sprintf("untrack cid%d", ci), func() error {
			err := w.tr.Untrack(ctx, w.cids[ci])
			if err != nil {
				w.noteInstrErr(ci)
			}
			return err
		})
	case "recover":
		w.client(fmt.Sprintf("recover cid%d", ci), func() error {
			_, err := w.tr.Recover(ctx, w.cids[ci])
			if err != nil {
				w.noteInstrErr(ci)
			}
			return err
		})
	case "recoverall":
		w.client("recoverall", func() error {
			_, err := w.tr.RecoverAll(ctx)
			if err != nil {
				for i := range w.cids {
					w.noteInstrErr(i)
				}
			}
			return err
		})
	case "release":
		if w.ipfs.Release(s.K, s.Outcome) {
			w.run.Fault("release_" + s.Outcome)
		}
	case "hold":
		w.ipfs.SetHold(s.On)
		if s.On {
			w.run.Fault("hold")
		}
	case "script":
		for i := 0; i < s.N; i++ {
			w.ipfs.Script(s.Outcome)
		}
		if s.Outcome != "ok" {
			w.run.Fault("script_" + s.Outcome)
		}
	case "burst":
		w.ipfs.SetHold(true)
		w.run.Fault("burst")
		for i := 0; i < s.N && i < n; i++ {
			j := i
			if j == int(w.plan.Knob("meta", -1)) {
				continue
			}
			p := mkPin(w, j, "local", false)
			if old, err := w.st.Get(ctx, p.Cid); err == nil && old.Type == api.MetaType {
				continue
			}
			w.st.set(p)
			w.touched[j] = true
			w.client(fmt.Sprintf("track cid%d local recursive", j), func() error {
				err := w.tr.Track(ctx, p)
				if err != nil {
					w.noteInstrErr(j)
				}
				return err
			})
		}
	case "quiesce":
		synctest.Wait()
		w.quiesce(s.Outcome)
		w.checkQuiescent("mid")
	}
}

func modeName(p *api.Pin) string {
	if p.Type == api.MetaType {
		return "meta"
	}
	if p.MaxDepth == 0 {
		return "direct"
	}
	return "recursive"
}

func (w *world) noteInstrErr(ci int) {
	s := w.run.Stamp()
	w.mu.Lock()
	w.instrErr[ci] = s
	w.mu.Unlock()
	w.run.Probe("instruction_error")
}

// quiesce releases every parked call (first with the given outcome, the rest
// ok) until nothing is parked and every client call has returned.
func (w *world) quiesce(first string) {
	hold := false
	_ = hold
	for i := 0; i < 10000; i++ {
		synctest.Wait()
		o := "ok"
		if i == 0 {
			o = first
		}
		if !w.ipfs.Release(0, o) {
			break
		}
		if o != "ok" {
			w.run.Fault("release_" + o)
		}
	}
	synctest.Wait()
	w.mu.Lock()
	pend := w.pending
	w.mu.Unlock()
	if pend != 0 {
		// Give simulated time a chance (nothing in the tracker needs it, but
		// be generous before calling it a hang).
		time.Sleep(30 * time.Second)
		synctest.Wait()
		w.mu.Lock()
		pend = w.pending
		w.mu.Unlock()
		if pend != 0 {
			w.run.Violate("deadlock", "client_stuck", "%d client calls have not returned 30 simulated seconds after every IPFS call completed", pend)
		}
	}
}

func class(s api.TrackerStatus) string {
	switch s {
	case api.TrackerStatusPinned:
		return "pinned"
	case api.TrackerStatusRemote:
		return "remote"
	case api.TrackerStatusSharded:
		return "sharded"
	case api.TrackerStatusUnpinned:
		return "unpinned"
	case api.TrackerStatusClusterError, api.TrackerStatusPinError, api.TrackerStatusUnpinError, api.TrackerStatusUnexpectedlyUnpinned:
		return "error"
	case api.TrackerStatusPinQueued, api.TrackerStatusUnpinQueued, api.TrackerStatusPinning, api.TrackerStatusUnpinning:
		return "pending"
	}
	return "undefined"
}

func (w *world) errorAllowed(ci int) bool {
	if w.ipfs.LastFailed(w.cids[ci]) {
		return true
	}
	w.mu.Lock()
	ie := w.instrErr[ci]
	w.mu.Unlock()
	if ie == 0 {
		return false
	}
	// an instruction error is superseded by a later successful daemon call
	lastOK := 0
	for _, c := range w.ipfs.Calls {
		if c.Cid == w.cids[ci].String() && (c.Outcome == "ok" || c.Outcome == "noop") && c.Seq > lastOK {
			lastOK = c.Seq
		}
	}
	return ie > lastOK
}

// checkQuiescent evaluates C05 (first clause) and C06 on a quiescent peer.
func (w *world) checkQuiescent(tag string) {
	ctx := context.Background()
	w.run.Probe("quiescent_checks")
	all := w.tr.StatusAll(ctx, api.TrackerStatusUndefined)
	listing := map[string]*api.PinInfo{}
	for _, pi := range all {
		if pi == nil {
			w.violate("C06/listing_nil_entry", "", "%s: StatusAll returned a nil entry", tag)
			continue
		}
		k := pi.Cid.String()
		if _, dup := listing[k]; dup {
			w.violate("C06/listing_duplicate", "", "%s: StatusAll lists %s twice", tag, k)
		}
		listing[k] = pi
	}
	var obs []string
	for ci, c := range w.cids {
		sp := w.tr.Status(ctx, c)
		sc := class(sp.Status)
		lc := "unpinned"
		var ls api.TrackerStatus = api.TrackerStatusUnpinned
		if e, ok := listing[c.String()]; ok {
			lc = class(e.Status)
			ls = e.Status
		}
		pin, err := w.st.Get(ctx, c)
		inState := err == nil
		kind := "absent"
		mode := ""
		if inState {
			kind = kindOf(w, pin)
			mode = modeName(pin)
		}
		holds := w.ipfs.Holds(c)
		ea := w.errorAllowed(ci)
		obs = append(obs, fmt.Sprintf("cid%d[%s/%s daemon=%q status=%s listing=%s]", ci, kind, mode, holds, sp.Status, ls))

		// ---- C06: the two views agree, and agree with the facts
		if sc != lc {
			w.violate("C06/views_disagree", fmt.Sprintf("%s/%s status=%s listing=%s", kind, mode, sc, lc),
				"%s: cid%d (%s, %s, daemon holds %q): Status says %s, StatusAll says %s", tag, ci, kind, mode, holds, sp.Status, ls)
		}
		if sc == "pending" || lc == "pending" {
			w.violate("C06/pending_on_quiescent_peer", kind, "%s: cid%d reported %s/%s with no operation pending", tag, ci, sp.Status, ls)
		}
		var allowed []string
		switch kind {
		case "meta":
			allowed = []string{"sharded"}
		case "remote":
			allowed = []string{"remote"}
		case "local", "everywhere":
			switch {
			case holds == mode && !ea:
				allowed = []string{"pinned"}
			case holds == mode:
				allowed = []string{"pinned", "error"}
			default:
				allowed = []string{"error"}
			}
		case "absent":
			allowed = []string{"unpinned"}
			if ea {
				allowed = append(allowed, "error")
			}
		}
		for _, v := range []struct{ view, cl string }{{"status", sc}, {"listing", lc}} {
			if !contains(allowed, v.cl) {
				w.violate("C06/"+v.view+"_untruthful", fmt.Sprintf("%s/%s holds=%q got=%s", kind, mode, holds, v.cl),
					"%s: cid%d is %s/%s in the pinset, daemon holds %q, failure-recorded=%v: %s view reports class %s, facts allow %v",
					tag, ci, kind, mode, holds, ea, v.view, v.cl, allowed)
			}
		}

		// ---- C05 clause 1: daemon matches the last instruction, or error status
		if w.touched[ci] {
			switch kind {
			case "local", "everywhere":
				if holds != mode && sc != "error" {
					w.violate("C05/mismatch_without_error", fmt.Sprintf("%s want=%s have=%q status=%s", kind, mode, holds, sc),
						"%s: cid%d should be pinned %s here, daemon holds %q, yet Status is %s (not an error status)", tag, ci, mode, holds, sp.Status)
				}
			case "absent":
				if holds != "" && sc != "error" {
					w.violate("C05/not_removed_without_error", fmt.Sprintf("have=%q status=%s", holds, sc),
						"%s: cid%d was removed, daemon still holds it %q, yet Status is %s", tag, ci, holds, sp.Status)
				}
			case "remote":
				// unpinned locally on a best-effort basis: a daemon failure is
				// tolerated, making no attempt is not
				if rq := w.remoteQuiet[ci]; rq > 0 && holds != "" {
					tried := false
					for _, c := range w.ipfs.Calls {
						if c.Cid == w.cids[ci].String() && c.Seq > rq {
							tried = true
						}
					}
					w.run.Probe("remote_unpin_attempts_checked")
					if !tried {
						w.violate("C05/remote_not_unpinned", "no attempt", "%s: cid%d moved to other peers while nothing else was going on and the daemon held it (%q): no unpin was attempted at the daemon, and it is still pinned here (status %s)", tag, ci, holds, sp.Status)
					}
				}
			case "meta":
				if holds != "" {
					w.violate("C05/meta_pinned", "", "%s: meta cid%d is pinned in the daemon (%s)", tag, ci, holds)
				}
			}
		}
	}
	w.run.Ev("oracle", "observe", "%s %s", tag, strings.Join(obs, " "))

	// ---- C06 filter law
	base := map[string]api.TrackerStatus{}
	for k, e := range listing {
		base[k] = e.Status
	}
	filters := []api.TrackerStatus{
		api.TrackerStatusClusterError, api.TrackerStatusPinError, api.TrackerStatusUnpinError,
		api.TrackerStatusPinned, api.TrackerStatusPinning, api.TrackerStatusUnpinning, api.TrackerStatusUnpinned,
		api.TrackerStatusRemote, api.TrackerStatusPinQueued, api.TrackerStatusUnpinQueued, api.TrackerStatusSharded,
		api.TrackerStatusUnexpectedlyUnpinned,
		api.TrackerStatusError, api.TrackerStatusQueued,
		api.TrackerStatusPinned | api.TrackerStatusRemote,
		api.TrackerStatusPinError | api.TrackerStatusSharded,
		api.TrackerStatusRemote | api.TrackerStatusSharded | api.TrackerStatusUnpinError,
		api.TrackerStatusUnexpectedlyUnpinned | api.TrackerStatusPinError,
		api.TrackerStatusPinned | api.TrackerStatusUnexpectedlyUnpinned | api.TrackerStatusSharded | api.TrackerStatusRemote | api.TrackerStatusError | api.TrackerStatusQueued,
	}
	for _, f := range filters {
		got := map[string]api.TrackerStatus{}
		for _, e := range w.tr.StatusAll(ctx, f) {
			if e != nil {
				got[e.Cid.String()] = e.Status
			}
		}
		want := map[string]api.TrackerStatus{}
		for k, s := range base {
			if s != api.TrackerStatusUndefined && int(s)&int(f) != 0 {
				want[k] = s
			}
		}
		if !sameStatusMap(got, want) {
			w.violate("C06/filter_law", f.String(), "%s: StatusAll(%s) = %v but the unfiltered listing restricted to it is %v", tag, f, fmtStatusMap(got), fmtStatusMap(want))
		}
	}
	w.run.Probe("filters_checked")
}

func contains(xs []string, x string) bool {
	for _, y := range xs {
		if x == y {
			return true
		}
	}
	return false
}

func sameStatusMap(a, b map[string]api.TrackerStatus) bool {
	if len(a) != len(b) {
		return false
	}
	for k, v := range a {
		if b[k] != v {
			return false
		}
	}
	return true
}

func fmtStatusMap(m map[string]api.TrackerStatus) string {
	ks := make([]string, 0, len(m))
	for k := range m {
		ks = append(ks, k)
	}
	sort.Strings(ks)
	var sb strings.Builder
	for _, k := range ks {
		fmt.Fprintf(&sb, "%s:%s ", k[len(k)-6:], m[k])
	}
	return "{" + strings.TrimSpace(sb.String()) + "}"
}

// recoverRound: IPFS healthy, RecoverAll until it reports no error (a small
// queue may need several rounds: each is reported, none may be dropped), then
// the daemon must match the shared pinset for every CID, mode included.
func (w *world) recoverRound() {
	ctx := context.Background()
	w.ipfs.SetHold(false)
	w.ipfs.ClearScript()
	w.ipfs.SetDown(false)
	rounds := len(w.cids)*2 + 3
	clean := false
	before := map[int]string{}
	for ci, c := range w.cids {
		before[ci] = w.ipfs.Holds(c)
	}
	for i := 0; i < rounds; i++ {
		var rerr error
		done := make(chan struct{})
		go func() {
			_, rerr = w.tr.RecoverAll(ctx)
			close(done)
		}()
		synctest.Wait()
		select {
		case <-done:
		default:
			w.run.Violate("deadlock", "recoverall_stuck", "RecoverAll does not return with a healthy daemon")
			return
		}
		w.run.Ev("client", "recoverall", "round %d err=%v", i, rerr)
		w.quiesce("ok")
		if rerr == nil {
			clean = true
			break
		}
		w.run.Probe("recover_round_queue_full")
	}
	if !clean {
		w.violate("C05/recover_never_clean", "", "RecoverAll kept failing for %d rounds with a healthy daemon", rounds)
		return
	}
	w.run.Probe("recover_rounds")
	for ci, c := range w.cids {
		if !w.touched[ci] {
			continue
		}
		pin, err := w.st.Get(ctx, c)
		holds := w.ipfs.Holds(c)
		if err != nil {
			if holds != "" {
				w.violate("C05/after_recover_not_removed", fmt.Sprintf("have=%q", holds),
					"after a recover round with a healthy daemon, removed cid%d is still pinned (%s)", ci, holds)
			}
			continue
		}
		switch kindOf(w, pin) {
		case "local", "everywhere":
			want := modeName(pin)
			if holds != want && want == "direct" && holds == "recursive" && before[ci] == "recursive" {
				// The daemon already held the CID recursively before the
				// round (an unpin was cancelled by the newer direct pin) and
				// go-ipfs refuses pin add --recursive=false over it.
				w.violate("C05/after_recover_downgrade_blocked", "want=direct have=recursive before=recursive",
					"after a recover round with a healthy daemon, cid%d is recorded as direct in the shared pinset but the daemon still holds it recursively (it did before the round): the tracker re-issues pin-direct, which the daemon refuses, and never unpins first", ci)
			} else if holds != want {
				w.violate("C05/after_recover_mismatch", fmt.Sprintf("want=%s have=%q", want, holds),
					"after a recover round with a healthy daemon, cid%d is recorded as %s in the shared pinset but the daemon holds %q", ci, want, holds)
			}
		}
	}
	w.checkQuiescent("after_recover")
}
