package crdtsim

import (
	"context"
	_ "unsafe" // go:linkname

	_ "github.com/ipfs/ipfs-cluster" // the package that defines newPubSub
	host "github.com/libp2p/go-libp2p-core/host"
	pubsub "github.com/libp2p/go-libp2p-pubsub"
)

// clusterNewPubSub is ipfscluster.newPubSub (clusterhost.go): how a cluster peer
// configures its pubsub router. NewClusterHost, its only caller, also builds a
// real TCP/QUIC host and cannot be used on the simulated network, so the
// unexported function is reached directly (the harness is linked with
// -checklinkname=0). No copy of the options lives in the harness.
//
//go:linkname clusterNewPubSub github.com/ipfs/ipfs-cluster.newPubSub
func clusterNewPubSub(ctx context.Context, h host.Host) (*pubsub.PubSub, error)
