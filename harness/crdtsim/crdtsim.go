// Package crdtsim runs real consensus/crdt replicas (go-ds-crdt over ipfs-lite
// bitswap, signed gossipsub and the dual DHT on mocknet) with fault-injecting
// datastores and recording PinTracker services. Serves C02 (and the pubsub
// clause of C07).
package crdtsim

import (
	"context"
	"encoding/json"
	"errors"
	"fmt"
	"os"
	"runtime"
	"sort"
	"strings"
	"sync"
	"testing"
	"testing/synctest"
	"time"

	cid "github.com/ipfs/go-cid"
	ds "github.com/ipfs/go-datastore"
	dsq "github.com/ipfs/go-datastore/query"
	dssync "github.com/ipfs/go-datastore/sync"
	"github.com/ipfs/ipfs-cluster/api"
	"github.com/ipfs/ipfs-cluster/consensus/crdt"
	"github.com/ipfs/ipfs-cluster/version"
	"github.com/libp2p/go-libp2p-core/host"
	rpc "github.com/libp2p/go-libp2p-gorpc"
	dual "github.com/libp2p/go-libp2p-kad-dht/dual"
	pubsub "github.com/libp2p/go-libp2p-pubsub"

	"verif/simkit"
)

type Step struct {
	Op      string `json:"op"` // pin unpin burst partition heal reset latency failds healds down up observe trust distrust
	DelayMs int    `json:"delay_ms,omitempty"`
	Peer    int    `json:"peer,omitempty"`
	B       int    `json:"b,omitempty"`
	Cid     int    `json:"cid,omitempty"`
	N       int    `json:"n,omitempty"`
	Ms      int    `json:"ms,omitempty"`
	Group   []int  `json:"group,omitempty"`
	Mix     []int  `json:"mix,omitempty"` // burst: sequence of (cid*2 + isUnpin)
}

type H struct{}

func (H) Name() string { return "crdtsim" }

func (H) Generate(prop, tier string, seed uint64) *simkit.Plan {
	r := simkit.NewRng(seed)
	p := &simkit.Plan{Property: prop, Harness: "crdtsim", Seed: seed, RTSeed: r.Uint64() % 1000}
	n := r.Pick(2, 4, 3, 1) + 1
	ncids := r.Range(2, 5)
	p.SetKnob("peers", int64(n))
	p.SetKnob("ncids", int64(ncids))
	switch r.Pick(3, 3, 3) { // batching mode
	case 0:
		p.Scenario = "nobatch"
		// batching is in use only when both limits are set: a section with one of
		// them (what editing a single line of service.json gives) means direct writes
		switch r.Pick(6, 2, 2) {
		case 1:
			p.SetKnob("half_size", int64(r.Range(1, 8)))
		case 2:
			p.SetKnob("half_age_ms", int64([]int{50, 1000}[r.Intn(2)]))
		}
	case 1:
		p.Scenario = "size"
		p.SetKnob("batch_size", int64(r.Range(1, 8)))
		p.SetKnob("batch_age_ms", 20*1000) // large against the step delays: size triggers dominate; flushes in the final quiet period
	case 2:
		p.Scenario = "age"
		p.SetKnob("batch_size", 100000)
		p.SetKnob("batch_age_ms", int64([]int{50, 200, 1000, 5000}[r.Intn(4)]))
	}
	p.SetKnob("queue", int64([]int{1, 2, 4, 64}[r.Intn(4)]))
	p.SetKnob("rebroadcast_ms", int64([]int{1000, 5000, 30000}[r.Intn(3)]))
	p.SetKnob("latency_ms", int64([]int{1, 10, 50}[r.Intn(3)]))
	// trust: 0 trust-all, 1 everyone listed explicitly, 2 replica n-1 is not trusted by the others
	trust := r.Pick(3, 3, 2)
	if prop == "C07" {
		trust = 2
	}
	if n == 1 {
		trust = 0
	}
	p.SetKnob("trust", int64(trust))
	forge := trust == 2 && r.Chance(0.35)
	if forge {
		// the untrusted replica forges: it publishes without signatures and names a
		// trusted replica as the author of its messages
		p.SetKnob("forge", 1)
	}
	if trust == 2 && r.Chance(0.6) {
		// lock acquisitions and atomic.Value accesses are scheduling points
		p.SetKnob("lock_yield", int64([]int{30, 100, 300}[r.Intn(3)]))
	}
	contended := r.Chance(0.35)
	if contended {
		p.SetKnob("contended", 1)
	}
	steps := r.Range(8, 45)
	if tier == "thorough" && r.Chance(0.3) {
		steps = r.Range(40, 100)
	}
	faultBias := r.Float() * 0.4
	age := int(p.Knob("batch_age_ms", 0))
	if trust == 2 && n >= 3 && !forge && r.Chance(0.3) {
		// first of all, with nothing else going on: a trusted replica reaches the
		// other trusted ones only through the replica nobody trusts
		p.AddStep(Step{Op: "relay", Peer: r.Intn(n - 1)})
	}
	for i := 0; i < steps; i++ {
		st := Step{DelayMs: r.Pick(5, 3, 1) * r.Range(0, 600)}
		if p.Scenario == "age" && r.Chance(0.3) {
			st.DelayMs = age + r.Range(-20, 20)
			if st.DelayMs < 0 {
				st.DelayMs = 0
			}
		}
		if r.Float() < faultBias {
			switch r.Pick(4, 3, 2, 2, 3, 3, 2, 2) {
			case 0:
				if n < 2 {
					st.Op = "observe"
					break
				}
				st.Op = "partition"
				st.Group = r.Perm(n)[:r.Range(1, n-1)]
			case 1:
				st.Op = "heal"
			case 2:
				// (a bare connection reset with the link left up is not generated here:
				// after it gossipsub v0.4.1 on mocknet can stay deaf in one direction,
				// which is about the pubsub layer, not about what C02 states)
				st.Op = "latency"
				st.Peer, st.B, st.Ms = r.Intn(n), r.Intn(n), []int{1, 20, 100, 400}[r.Intn(4)]
			case 3:
				st.Op = "latency"
				st.Peer, st.B, st.Ms = r.Intn(n), r.Intn(n), []int{1, 20, 100, 400}[r.Intn(4)]
			case 4:
				st.Op = "failds" // the next N datastore writes of this replica fail
				st.Peer = r.Intn(n)
				st.N = r.Range(1, 4)
				st.Ms = r.Intn(6) // skip this many writes first: the failure lands in the middle of a batch
			case 5:
				st.Op = "healds"
				st.Peer = r.Intn(n)
			case 6:
				st.Op = "trust"
				st.Peer, st.B = r.Intn(n), r.Intn(n)
			case 7:
				st.Op = "distrust"
				st.Peer, st.B = r.Intn(n), r.Intn(n)
			}
			if trust != 2 && (st.Op == "trust" || st.Op == "distrust") {
				st.Op = "observe"
			}
			if trust == 2 && r.Chance(0.25) {
				// what the open Cluster.PeerAdd endpoint makes the consensus component do
				// for whoever asks (CRDT: nothing): trust must not change by it
				st.Op = "addpeer"
				st.Peer, st.B = r.Intn(n), r.Intn(n)
			} else if trust == 2 && n >= 3 && r.Chance(0.2) {
				// a Trust and a Distrust of two other peers issued at one replica in the
				// same instant: both must take effect
				st.Op = "trust_race"
				st.Peer = r.Intn(n)
				st.B = r.Intn(n)
				st.N = r.Intn(n)
				st.Ms = r.Intn(4) // repetitions - 1
			}
		} else {
			switch r.Pick(45, 25, 15, 15) {
			case 0:
				st.Op = "pin"
				st.Peer = r.Intn(n)
				st.Cid = r.Intn(ncids)
			case 1:
				st.Op = "unpin"
				st.Peer = r.Intn(n)
				st.Cid = r.Intn(ncids)
			case 2:
				st.Op = "burst" // several operations in one instant: same batch window, may overflow the queue
				st.Peer = r.Intn(n)
				k := r.Range(2, 10)
				for j := 0; j < k; j++ {
					st.Mix = append(st.Mix, r.Intn(ncids)*2+r.Pick(2, 1))
				}
			case 3:
				st.Op = "observe"
			}
		}
		p.AddStep(st)
	}
	return p
}

// ------------------------------------------------------------------ fault-injecting datastore

var errDS = errors.New("simulated datastore: write failed (disk error)")

type faultDS struct {
	inner ds.Batching
	mu    sync.Mutex
	skip  int
	fail  int
	run   *simkit.Run
	who   string
}

func (d *faultDS) shouldFail() bool {
	d.mu.Lock()
	defer d.mu.Unlock()
	if d.fail <= 0 {
		return false
	}
	if d.skip > 0 {
		d.skip--
		return false
	}
	d.fail--
	d.run.Fault("datastore_write_failed")
	return true
}

func (d *faultDS) Put(k ds.Key, v []byte) error {
	if d.shouldFail() {
		return errDS
	}
	return d.inner.Put(k, v)
}
func (d *faultDS) Delete(k ds.Key) error {
	if d.shouldFail() {
		return errDS
	}
	return d.inner.Delete(k)
}
func (d *faultDS) Get(k ds.Key) ([]byte, error)           { return d.inner.Get(k) }
func (d *faultDS) Has(k ds.Key) (bool, error)             { return d.inner.Has(k) }
func (d *faultDS) GetSize(k ds.Key) (int, error)          { return d.inner.GetSize(k) }
func (d *faultDS) Query(q dsq.Query) (dsq.Results, error) { return d.inner.Query(q) }
func (d *faultDS) Sync(k ds.Key) error                    { return d.inner.Sync(k) }
func (d *faultDS) Close() error                           { return d.inner.Close() }
func (d *faultDS) Batch() (ds.Batch, error) {
	b, err := d.inner.Batch()
	if err != nil {
		return nil, err
	}
	return &faultBatch{d: d, b: b}, nil
}

type faultBatch struct {
	d *faultDS
	b ds.Batch
}

func (b *faultBatch) Put(k ds.Key, v []byte) error { return b.b.Put(k, v) }
func (b *faultBatch) Delete(k ds.Key) error        { return b.b.Delete(k) }
func (b *faultBatch) Commit() error {
	if b.d.shouldFail() {
		return errDS
	}
	return b.b.Commit()
}

// ------------------------------------------------------------------ services

type hookCall struct {
	Track bool
	Cid   string
	Nonce string
	Seq   int
}

type trackerSvc struct {
	mu    sync.Mutex
	calls []hookCall
	run   *simkit.Run
}

func (t *trackerSvc) Track(ctx context.Context, in *api.Pin, out *struct{}) error {
	t.mu.Lock()
	t.calls = append(t.calls, hookCall{Track: true, Cid: in.Cid.String(), Nonce: in.Name, Seq: t.run.Stamp()})
	t.mu.Unlock()
	return nil
}
func (t *trackerSvc) Untrack(ctx context.Context, in *api.Pin, out *struct{}) error {
	t.mu.Lock()
	t.calls = append(t.calls, hookCall{Cid: in.Cid.String(), Seq: t.run.Stamp()})
	t.mu.Unlock()
	return nil
}

type monSvc struct{}

func (monSvc) LatestMetrics(ctx context.Context, in string, out *[]*api.Metric) error {
	*out = nil
	return nil
}

// ------------------------------------------------------------------ world

type replica struct {
	idx     int
	host    host.Host
	cons    *crdt.Consensus
	store   *faultDS
	tracker *trackerSvc
	trusts  map[int]bool
}

type opRec struct {
	Pin        bool
	Cid        int
	Nonce      string
	Peer       int
	Accepted   bool
	QueueErr   bool
	At         time.Time
	Seq        int
	AfterFault bool // submitted while (or after) a datastore fault was armed on that replica
}

type world struct {
	opsMu          sync.Mutex
	run            *simkit.Run
	plan           *simkit.Plan
	net            *simkit.Net
	reps           []*replica
	cids           []cid.Cid
	ops            []*opRec
	nonce          int
	ctx            context.Context
	faulted        map[int]bool
	lastFaultClear map[int]time.Time
}

func (H) Execute(t *testing.T, plan *simkit.Plan, run *simkit.Run) {
	run.Begin()
	n := int(plan.Knob("peers", 2))
	w := &world{run: run, plan: plan, faulted: map[int]bool{}, lastFaultClear: map[int]time.Time{}}
	ctx, cancel := context.WithCancel(context.Background())
	w.ctx = ctx
	for i := 0; i < int(plan.Knob("ncids", 3)); i++ {
		w.cids = append(w.cids, simkit.TestCid(i))
	}
	w.net = simkit.NewNet(run, time.Duration(plan.Knob("latency_ms", 5))*time.Millisecond)
	trust := int(plan.Knob("trust", 0))
	for i := 0; i < n; i++ {
		h := w.net.AddPeer(i)
		rep := &replica{idx: i, host: h, trusts: map[int]bool{}}
		rep.store = &faultDS{inner: dssync.MutexWrap(ds.NewMapDatastore()), run: run, who: fmt.Sprintf("r%d", i)}
		dht, err := dual.New(ctx, h)
		if err != nil {
			panic(err)
		}
		// the pubsub router exactly as a cluster peer builds it (signing policy
		// included): ipfscluster.newPubSub, reached through go:linkname
		var ps *pubsub.PubSub
		if trust == 2 && i == n-1 && plan.Knob("forge", 0) == 1 {
			ps, err = pubsub.NewGossipSub(ctx, h, pubsub.WithMessageSignaturePolicy(pubsub.LaxNoSign), pubsub.WithMessageAuthor(simkit.TestPeer(0)))
			run.Probe("forging_publisher")
		} else {
			ps, err = clusterNewPubSub(ctx, h)
		}
		if err != nil {
			panic(err)
		}
		cfg := &crdt.Config{}
		cfg.Default()
		cfg.ClusterName = "simcluster"
		cfg.RebroadcastInterval = time.Duration(plan.Knob("rebroadcast_ms", 5000)) * time.Millisecond
		cfg.Batching.MaxQueueSize = int(plan.Knob("queue", 64))
		if plan.Scenario != "nobatch" {
			cfg.Batching.MaxBatchSize = int(plan.Knob("batch_size", 4))
			cfg.Batching.MaxBatchAge = time.Duration(plan.Knob("batch_age_ms", 1000)) * time.Millisecond
		} else if hs, ha := plan.Knob("half_size", 0), plan.Knob("half_age_ms", 0); hs > 0 || ha > 0 {
			cfg.Batching.MaxBatchSize = int(hs)
			cfg.Batching.MaxBatchAge = time.Duration(ha) * time.Millisecond
			if i == 0 {
				run.Probe("batching_half_configured")
			}
		}
		switch trust {
		case 0:
			cfg.TrustAll = true
			for j := 0; j < n; j++ {
				rep.trusts[j] = true
			}
		default:
			cfg.TrustAll = false
			for j := 0; j < n; j++ {
				if trust == 2 && j == n-1 && i != n-1 {
					continue // the last replica is not trusted by the others
				}
				cfg.TrustedPeers = append(cfg.TrustedPeers, simkit.TestPeer(j))
				rep.trusts[j] = true
			}
		}
		rep.trusts[i] = true
		cons, err := crdt.New(h, dht, ps, cfg, rep.store)
		if err != nil {
			panic(err)
		}
		rep.cons = cons
		rep.tracker = &trackerSvc{run: run}
		srv := rpc.NewServer(h, version.RPCProtocol)
		srv.RegisterName("PinTracker", rep.tracker)
		srv.RegisterName("PeerMonitor", monSvc{})
		cons.SetClient(rpc.NewClientWithServer(h, version.RPCProtocol, srv))
		w.reps = append(w.reps, rep)
		if os.Getenv("VERIF_DEBUG_CTR") != "" {
			run.Ev("dbg", "replica", "%d created", i)
		}
	}
	w.net.ConnectAll()
	if os.Getenv("VERIF_DEBUG_CTR") != "" {
		run.Ev("dbg", "connected", "")
	}
	if os.Getenv("VERIF_DEBUG_STACKS") != "" {
		buf := make([]byte, 64<<20)
		os.Stderr.Write(buf[:runtime.Stack(buf, true)])
	}
	defer func() {
		for _, r := range w.reps {
			r.cons.Shutdown(context.Background())
		}
		cancel()
		w.net.Close()
		synctest.Wait()
	}()
	for _, r := range w.reps {
		select {
		case <-r.cons.Ready(ctx):
		case <-time.After(10 * time.Second):
			panic("crdt consensus not ready")
		}
	}
	if os.Getenv("VERIF_DEBUG_CTR") != "" {
		run.Ev("dbg", "ready", "")
		for k := 0; k < 30; k++ {
			time.Sleep(100 * time.Millisecond)
			run.Ev("dbg", "tick", "%d", k)
		}
	} else {
		time.Sleep(3 * time.Second) // gossipsub mesh
	}

	for _, raw := range plan.Steps {
		var s Step
		if err := json.Unmarshal(raw, &s); err != nil {
			panic(err)
		}
		if s.DelayMs > 0 {
			time.Sleep(time.Duration(s.DelayMs) * time.Millisecond)
		}
		run.Step()
		run.AbandonIfWallOver()
		pi := ((s.Peer % n) + n) % n
		switch s.Op {
		case "pin", "unpin":
			w.submit(pi, s.Op == "pin", s.Cid)
		case "burst":
			for _, m := range s.Mix {
				w.submit(pi, m%2 == 0, m/2)
			}
			run.Probe("bursts")
		case "partition":
			var rest []int
			for i := 0; i < n; i++ {
				in := false
				for _, g := range s.Group {
					if g%n == i {
						in = true
					}
				}
				if !in {
					rest = append(rest, i)
				}
			}
			w.net.Partition(s.Group, rest)
		case "heal":
			w.net.Heal()
		case "reset":
			if pi != s.B%n {
				w.net.Reset(pi, s.B%n)
			}
		case "latency":
			if pi != s.B%n {
				w.net.SetLatency(pi, s.B%n, time.Duration(s.Ms)*time.Millisecond)
			}
		case "failds":
			st := w.reps[pi].store
			st.mu.Lock()
			st.skip, st.fail = s.Ms, s.N
			st.mu.Unlock()
			w.faulted[pi] = true
			run.Ev(fmt.Sprintf("r%d", pi), "failds", "skip %d then fail %d datastore writes", s.Ms, s.N)
		case "healds":
			w.healDS(pi)
		case "trust":
			if pi != s.B%n {
				w.reps[pi].cons.Trust(ctx, simkit.TestPeer(s.B%n))
				w.reps[pi].trusts[s.B%n] = true
				run.Fault("trust_change")
				run.Ev(fmt.Sprintf("r%d", pi), "trust", "r%d", s.B%n)
			}
		case "distrust":
			if pi != s.B%n {
				w.reps[pi].cons.Distrust(ctx, simkit.TestPeer(s.B%n))
				delete(w.reps[pi].trusts, s.B%n)
				run.Fault("trust_change")
				run.Ev(fmt.Sprintf("r%d", pi), "distrust", "r%d", s.B%n)
			}
		case "addpeer":
			b := s.B % n
			if pi != b {
				before := w.reps[pi].cons.IsTrustedPeer(ctx, simkit.TestPeer(b))
				w.reps[pi].cons.AddPeer(ctx, simkit.TestPeer(b))
				after := w.reps[pi].cons.IsTrustedPeer(ctx, simkit.TestPeer(b))
				run.Ev(fmt.Sprintf("r%d", pi), "addpeer", "r%d trusted before=%v after=%v", b, before, after)
				run.Probe("add_peer_calls")
				if after && !before {
					run.Violate(plan.Property+"/trust_gained_by_add_peer", "", "r%d did not trust r%d; after AddPeer(r%d) - what the open PeerAdd endpoint does for any caller - it does", pi, b, b)
				}
			}
		case "trust_race":
			a, b := s.B%n, s.N%n
			if a != b && a != pi && b != pi {
				for rep := 0; rep <= s.Ms%4; rep++ {
					// so that both calls change something: a is not trusted, b is
					w.reps[pi].cons.Distrust(ctx, simkit.TestPeer(a))
					w.reps[pi].cons.Trust(ctx, simkit.TestPeer(b))
					var wg sync.WaitGroup
					wg.Add(2)
					go func() { defer wg.Done(); w.reps[pi].cons.Trust(ctx, simkit.TestPeer(a)) }()
					go func() { defer wg.Done(); w.reps[pi].cons.Distrust(ctx, simkit.TestPeer(b)) }()
					wg.Wait()
					w.reps[pi].trusts[a] = true
					delete(w.reps[pi].trusts, b)
					run.Fault("trust_change")
					run.Probe("concurrent_trust_changes")
					ta := w.reps[pi].cons.IsTrustedPeer(ctx, simkit.TestPeer(a))
					tb := w.reps[pi].cons.IsTrustedPeer(ctx, simkit.TestPeer(b))
					run.Ev(fmt.Sprintf("r%d", pi), "trust_race", "trust r%d, distrust r%d -> %v %v", a, b, ta, tb)
					if !ta || tb {
						run.Violate(plan.Property+"/trust_call_lost", "", "r%d was told Trust(r%d) and Distrust(r%d) in the same instant (before: r%d not trusted, r%d trusted); both returned, yet it reports trusted(r%d)=%v trusted(r%d)=%v", pi, a, b, a, b, a, ta, b, tb)
						break
					}
				}
			}
		case "relay":
			w.relayCheck(pi)
		case "observe":
			synctest.Wait()
			w.observeLocal("mid")
		}
	}
	// ---- no more faults: heal network and datastores, let everything settle.
	// Links that flapped within a second can leave gossipsub v0.4.1 deaf in one
	// direction (its dead-peer handling races with the new connection); that is
	// the pubsub layer's business. The statement is about replicas that "have
	// exchanged all updates", so the end game starts from a clean, long
	// disconnection followed by a clean reconnection.
	w.net.Heal()
	if n > 1 {
		var all []int
		for i := 0; i < n; i++ {
			all = append(all, i)
		}
		for i := 0; i < n; i++ {
			w.net.Isolate(i)
		}
		time.Sleep(30 * time.Second)
		w.net.Heal()
		_ = all
	}
	for i := range w.reps {
		w.healDS(i)
		for j := i + 1; j < n; j++ {
			w.net.SetLatency(i, j, time.Duration(plan.Knob("latency_ms", 5))*time.Millisecond)
		}
	}
	w.net.ConnectAll()
	// Evidence of exchange: every replica makes one last write to a CID of its
	// own. Its DAG node links everything that replica knew; whoever later holds
	// that marker has fetched and merged all of the writer's updates.
	time.Sleep(10 * time.Second)
	// Before anything else is written: a batch whose commit failed is kept and
	// committed again at the next age tick, so two ticks after the datastores were
	// healed every accepted operation has taken effect on the replica that accepted
	// it - with no later write to carry it along (the markers below would).
	if plan.Scenario != "nobatch" && plan.Knob("contended", 0) == 0 && plan.Property == "C02" {
		time.Sleep(2*time.Duration(plan.Knob("batch_age_ms", 1000))*time.Millisecond + time.Second)
		synctest.Wait()
		for ci := range w.cids {
			owner := ci % n
			if len(w.cids) < n && ci%n != owner {
				continue
			}
			var last *opRec
			clean := true
			for _, o := range w.ops {
				if o.Cid != ci || o.Peer != owner {
					continue
				}
				if o.Accepted {
					last, clean = o, true
				} else if !o.QueueErr {
					clean = false // an attempt after it failed otherwise: outcome unknown
				}
			}
			if last == nil || !clean {
				continue
			}
			st, err := w.stateOf(w.reps[owner])
			if err != nil {
				continue
			}
			got, has := st[ci]
			run.Probe("pending_after_heal_checked")
			if (last.Pin && (!has || got != last.Nonce)) || (!last.Pin && has) {
				run.Violate("C02/lost_after_commit_failure", "before any later write", "r%d accepted %s (cid%d) as its last operation on that CID; two age ticks after its datastore was healed, and before anything else was written, its pinset has cid%d=%q (present=%v); batching=%s", owner, last.Nonce, ci, ci, got, has, plan.Scenario)
			}
		}
	}
	for i, r := range w.reps {
		mp := api.PinCid(simkit.TestCid(100 + i))
		mp.Name = fmt.Sprintf("marker%d", i)
		mp.ReplicationFactorMin, mp.ReplicationFactorMax = -1, -1
		if err := r.cons.LogPin(w.ctx, mp); err != nil {
			run.Ev(fmt.Sprintf("r%d", i), "marker", "failed: %v", err)
		}
	}
	// go-ds-crdt gives a DAG fetch that started while a link was down up to
	// DAGSyncerTimeout (2 min, set by consensus/crdt) before it is retried on a
	// later rebroadcast: the quiet period has to cover that
	quiet := 2*time.Duration(plan.Knob("rebroadcast_ms", 5000))*time.Millisecond + 180*time.Second
	if a := time.Duration(plan.Knob("batch_age_ms", 0)) * time.Millisecond; plan.Scenario == "age" {
		quiet += a
	}
	time.Sleep(quiet)
	synctest.Wait()
	w.judge()
}

func (w *world) healDS(pi int) {
	st := w.reps[pi].store
	st.mu.Lock()
	had := st.fail > 0
	st.skip, st.fail = 0, 0
	st.mu.Unlock()
	if had || w.faulted[pi] {
		w.lastFaultClear[pi] = time.Now()
	}
}

func (w *world) submit(pi int, isPin bool, ci int) {
	ci = ci % len(w.cids)
	if w.plan.Knob("contended", 0) == 0 {
		// each CID is written by one replica only, so that "submission order per
		// CID" on the submitting replica determines the outcome
		for ci%len(w.reps) != pi {
			ci = (ci + 1) % len(w.cids)
			if len(w.cids) < len(w.reps) {
				break
			}
		}
		if ci%len(w.reps) != pi {
			return
		}
	}
	w.nonce++
	pin := api.PinCid(w.cids[ci])
	pin.Name = fmt.Sprintf("n%d", w.nonce)
	pin.ReplicationFactorMin, pin.ReplicationFactorMax = -1, -1
	rec := &opRec{Pin: isPin, Cid: ci, Nonce: pin.Name, Peer: pi, At: time.Now(), AfterFault: w.faulted[pi]}
	w.run.Op()
	var err error
	// Every second call comes with a request context that ends as soon as the
	// call has returned, the way an API request's does: an operation that was
	// accepted must take effect all the same (the batch worker runs later).
	ctx, cancel := w.ctx, context.CancelFunc(func() {})
	if w.nonce%2 == 0 {
		ctx, cancel = context.WithCancel(w.ctx)
		w.run.Probe("request_context_ended_after_return")
	}
	if isPin {
		err = w.reps[pi].cons.LogPin(ctx, pin)
	} else {
		err = w.reps[pi].cons.LogUnpin(ctx, pin)
	}
	cancel()
	rec.Accepted = err == nil
	if err != nil && errors.Is(err, crdt.ErrMaxQueueSizeReached) {
		rec.QueueErr = true
		w.run.Probe("queue_full")
	}
	kind := "unpin"
	if isPin {
		kind = "pin"
	}
	rec.Seq = w.run.Ev(fmt.Sprintf("r%d", pi), kind, "cid%d %s -> %v", ci, pin.Name, err)
	w.opsMu.Lock()
	w.ops = append(w.ops, rec)
	k := len(w.ops) - 1
	w.opsMu.Unlock()
	// a batch is committed when it reaches its age limit: the batch this operation
	// joined was opened no later than now, so max_batch_age from now (plus the time
	// a commit takes) the operation - or a later one on the same CID - has taken
	// effect here, however many operations keep arriving meanwhile. Judged where
	// only this replica writes the CID and no datastore fault was armed on it.
	if rec.Accepted && w.plan.Scenario != "nobatch" && w.plan.Knob("contended", 0) == 0 && !w.faulted[pi] {
		age := time.Duration(w.plan.Knob("batch_age_ms", 1000)) * time.Millisecond
		rep := w.reps[pi]
		go func() {
			select {
			case <-time.After(age + 500*time.Millisecond):
			case <-w.ctx.Done():
				return
			}
			if w.faulted[pi] {
				return
			}
			st, err := w.stateOf(rep)
			if err != nil {
				return
			}
			got := st[ci]
			ok := false
			w.opsMu.Lock()
			for _, o := range w.ops[k:] {
				if o.Accepted && o.Cid == ci && o.Peer == pi {
					v := ""
					if o.Pin {
						v = o.Nonce
					}
					if v == got {
						ok = true
					}
				}
			}
			w.opsMu.Unlock()
			w.run.Probe("age_limit_checked")
			if !ok {
				w.run.Violate("C02/age_limit_exceeded", w.plan.Scenario, "r%d accepted %s (%s cid%d) at %s; max_batch_age (%s) + 500ms later its own pinset still has cid%d=%q: neither this operation nor a later one on that CID has been committed (batching=%s)", pi, rec.Nonce, kind, ci, rec.At.Format("15:04:05.000"), age, ci, got, w.plan.Scenario)
			}
		}()
	}
}

// relayCheck: replica a keeps its link to the last replica only, which trusts
// everyone and is trusted by nobody, and pins. Trust is about who published an
// update, not about who passed it on: every replica that trusts a applies it.
func (w *world) relayCheck(a int) {
	n := len(w.reps)
	if n < 3 || w.plan.Knob("trust", 0) != 2 || w.plan.Knob("forge", 0) == 1 {
		return
	}
	a = a % (n - 1)
	for j := 0; j < n-1; j++ {
		if j != a {
			w.net.Cut(a, j)
		}
	}
	defer func() {
		w.net.Heal()
		w.net.ConnectAll()
	}()
	time.Sleep(3 * time.Second)
	w.opsMu.Lock()
	before := len(w.ops)
	w.opsMu.Unlock()
	w.submit(a, true, a)
	w.opsMu.Lock()
	var rec *opRec
	if len(w.ops) > before {
		rec = w.ops[before]
	}
	w.opsMu.Unlock()
	if rec == nil || !rec.Accepted {
		return
	}
	wait := 2*time.Duration(w.plan.Knob("rebroadcast_ms", 5000))*time.Millisecond + 5*time.Second
	if w.plan.Scenario != "nobatch" {
		wait += time.Duration(w.plan.Knob("batch_age_ms", 1000)) * time.Millisecond
	}
	time.Sleep(wait)
	synctest.Wait()
	for j := 0; j < n-1; j++ {
		if j == a {
			continue
		}
		st, err := w.stateOf(w.reps[j])
		if err != nil {
			continue
		}
		w.run.Probe("trusted_update_through_untrusted_relay")
		if st[rec.Cid] != rec.Nonce {
			w.run.Violate(w.plan.Property+"/trusted_update_ignored", "relayed", "r%d trusts r%d, whose pin of cid%d (%s) reached it through r%d only (which r%d does not trust; r%d and r%d had no direct link): %s after it was accepted r%d holds cid%d=%q - the update was judged by who passed it on, not by who published it", j, a, rec.Cid, rec.Nonce, n-1, j, a, j, wait, j, rec.Cid, st[rec.Cid])
		}
	}
}

func (w *world) stateOf(r *replica) (map[int]string, error) {
	st, err := r.cons.State(w.ctx)
	if err != nil {
		return nil, err
	}
	pins, err := st.List(w.ctx)
	if err != nil {
		return nil, err
	}
	out := map[int]string{}
	for _, p := range pins {
		for i, c := range w.cids {
			if c.Equals(p.Cid) {
				out[i] = p.Name
			}
		}
		if strings.HasPrefix(p.Name, "marker") {
			var k int
			fmt.Sscanf(p.Name, "marker%d", &k)
			out[-1-k] = p.Name // markers live at negative indices
		}
	}
	return out, nil
}

func fmtState(m map[int]string) string {
	ks := make([]int, 0, len(m))
	for k := range m {
		ks = append(ks, k)
	}
	sort.Ints(ks)
	var sb strings.Builder
	sb.WriteString("{")
	for _, k := range ks {
		fmt.Fprintf(&sb, "cid%d:%s ", k, m[k])
	}
	sb.WriteString("}")
	return sb.String()
}

// observeLocal: a value that was never submitted must never appear.
func (w *world) observeLocal(tag string) {
	known := map[string]bool{}
	for _, o := range w.ops {
		if o.Pin {
			known[o.Nonce] = true
		}
	}
	for _, r := range w.reps {
		st, err := w.stateOf(r)
		if err != nil {
			continue
		}
		for c, nm := range st {
			if c < 0 {
				continue
			}
			if !known[nm] {
				w.run.Violate("C02/unknown_value", "", "%s: r%d holds cid%d=%q, a value nobody submitted", tag, r.idx, c, nm)
			}
		}
		w.run.Ev(fmt.Sprintf("r%d", r.idx), "state", "%s %s", tag, fmtState(st))
	}
	w.run.Probe("observations")
}

// debugDump (VERIF_DEBUG_C02=1): the raw go-ds-crdt keys of every replica -
// heads, elements, tombstones - to tell "an update never arrived" from "the
// same updates merged differently".
func (w *world) debugDump() {
	if os.Getenv("VERIF_DEBUG_C02") == "" {
		return
	}
	for i, r := range w.reps {
		res, err := r.store.inner.Query(dsq.Query{KeysOnly: true})
		if err != nil {
			continue
		}
		var ks []string
		for e := range res.Next() {
			k := e.Key
			if strings.Contains(k, "/h/") || strings.Contains(k, "/s/s/") || strings.Contains(k, "/s/t/") || strings.Contains(k, "/s/k/") {
				ks = append(ks, k)
			}
		}
		sort.Strings(ks)
		for _, k := range ks {
			fmt.Fprintf(os.Stderr, "DUMP r%d %s\n", i, k)
		}
	}
}

// headsOf lists the heads of replica i's update DAG (go-ds-crdt's /h/ keys).
func (w *world) headsOf(i int) string {
	res, err := w.reps[i].store.inner.Query(dsq.Query{KeysOnly: true})
	if err != nil {
		return ""
	}
	var ks []string
	for e := range res.Next() {
		if x := strings.Index(e.Key, "/h/"); x >= 0 {
			ks = append(ks, e.Key[x:])
		}
	}
	sort.Strings(ks)
	return strings.Join(ks, " ")
}

func (w *world) judge() {
	w.debugDump()
	n := len(w.reps)
	contended := w.plan.Knob("contended", 0) == 1
	w.observeLocal("final")
	states := make([]map[int]string, n)
	for i, r := range w.reps {
		st, err := w.stateOf(r)
		if err != nil {
			w.run.Violate("C02/state_unavailable", "", "r%d cannot serve its state after the run: %v", i, err)
			return
		}
		states[i] = st
	}
	prop := w.plan.Property
	want := func(c string) bool { return strings.HasPrefix(c, prop+"/") }

	// 2. queue-full operations have no effect anywhere
	for _, o := range w.ops {
		if o.QueueErr && o.Pin {
			for i := range w.reps {
				for c, nm := range states[i] {
					if nm == o.Nonce && want("C02/x") {
						w.run.Violate("C02/refused_operation_took_effect", "", "%s was refused with a queue-full error, yet r%d holds it for cid%d", o.Nonce, i, c)
					}
				}
				w.reps[i].tracker.mu.Lock()
				for _, hc := range w.reps[i].tracker.calls {
					if hc.Track && hc.Nonce == o.Nonce && want("C02/x") {
						w.run.Violate("C02/refused_operation_took_effect", "tracker", "%s was refused with a queue-full error, yet r%d's tracker was told to track it", o.Nonce, i)
					}
				}
				w.reps[i].tracker.mu.Unlock()
			}
		}
	}

	// 1 + 3. local submission order per CID (single-writer CIDs), batching included
	if !contended && want("C02/x") {
		for ci := range w.cids {
			owner := ci % n
			if len(w.cids) < n && ci%n != owner {
				continue
			}
			var last *opRec
			var maybes []*opRec // later operations that returned an error other than queue-full: they may or may not have taken effect
			anyFault := false
			for _, o := range w.ops {
				if o.Cid == ci && o.Peer == owner && o.Accepted {
					last = o
					maybes = nil
				} else if o.Cid == ci && o.Peer == owner && !o.QueueErr && last != nil {
					maybes = append(maybes, o)
				}
				if o.Cid == ci && o.Peer == owner && o.AfterFault {
					anyFault = true
				}
			}
			if last == nil {
				continue
			}
			got, has := states[owner][ci]
			matches := func(o *opRec) bool {
				return (o.Pin && has && got == o.Nonce) || (!o.Pin && !has)
			}
			ok := matches(last)
			for _, m := range maybes {
				if matches(m) {
					ok = true
				}
			}
			w.run.Probe("local_order_checked")
			if ok {
				continue
			}
			clause := "C02/local_order"
			sig := w.plan.Scenario
			if anyFault {
				// after a datastore fault an accepted operation may be delayed until the
				// next successful commit, never lost for good; everything is healed and
				// quiet here, so it must have landed - unless nothing triggers a commit
				clause = "C02/lost_after_commit_failure"
			}
			w.run.Violate(clause, sig, "r%d accepted %s (%s cid%d) as the last operation on that CID, yet after everything settled its pinset has cid%d=%q (present=%v); batching=%s", owner, last.Nonce, map[bool]string{true: "pin", false: "unpin"}[last.Pin], ci, ci, got, has, w.plan.Scenario)
		}
	}

	// 4. convergence between replicas that trust each other (in both directions)
	for i := 0; i < n; i++ {
		for j := i + 1; j < n; j++ {
			if !(w.reps[i].trusts[j] && w.reps[j].trusts[i]) {
				continue
			}
			if w.faulted[i] || w.faulted[j] {
				// the statement lists commit failures of the submitter's batch; a
				// replica whose disk failed while merging remote updates is not judged
				w.run.Probe("faulted_replica_not_judged_for_convergence")
				continue
			}
			// a third, partially trusted writer can make two mutually trusting replicas
			// legitimately differ: compare only when both trust exactly the same writers
			same := true
			for k := 0; k < n; k++ {
				if w.reps[i].trusts[k] != w.reps[j].trusts[k] {
					same = false
				}
			}
			if !same {
				continue
			}
			if _, ok := states[i][-1-j]; !ok {
				w.run.Probe("exchange_not_evidenced")
				continue
			}
			if _, ok := states[j][-1-i]; !ok {
				w.run.Probe("exchange_not_evidenced")
				continue
			}
			si, sj := withoutMarkers(states[i]), withoutMarkers(states[j])
			w.run.Probe("convergence_checked")
			if fmtState(si) != fmtState(sj) && want("C02/x") {
				sameKeys := len(si) == len(sj)
				for c := range si {
					if _, ok := sj[c]; !ok {
						sameKeys = false
					}
				}
				if sameKeys {
					w.run.Violate("C02/converged_cids_different_values", "concurrent writers, same cids", "r%d and r%d hold the same CIDs but different pins for them after concurrent pin/unpin of one CID at both: r%d=%s and r%d=%s", i, j, i, fmtState(si), j, fmtState(sj))
				} else {
					// did an update never arrive, or did the same updates merge differently?
					sig, note := "", ""
					if hi, hj := w.headsOf(i), w.headsOf(j); hi != "" && hi == hj {
						sig = "identical heads"
						note = " (both hold the same heads of the update DAG: every update arrived, the merge differs)"
					}
					w.run.Violate("C02/not_converged", sig, "r%d and r%d trust each other and have been connected and quiet for the whole budget, yet r%d=%s and r%d=%s%s", i, j, i, fmtState(si), j, fmtState(sj), note)
				}
			}
		}
	}

	// C07 pubsub clause: nothing written by a replica ever shows up at a replica that never trusted it
	everTrusted := func(i, j int) bool { return w.reps[i].trusts[j] }
	_ = everTrusted
	if w.plan.Knob("trust", 0) == 2 {
		u := n - 1
		vouched := false // some replica trusted U at some point: what it merged it re-publishes under its own name
		for i := 0; i < n-1; i++ {
			if !w.neverTrusted(i, u) {
				vouched = true
			}
		}
		for i := 0; i < n-1 && !vouched; i++ {
			if w.reps[i].trusts[u] {
				continue // was trusted at some point by the end: judged by the history clause below
			}
			for c, nm := range states[i] {
				for _, o := range w.ops {
					if o.Nonce == nm && o.Peer == u && w.neverTrusted(i, u) {
						w.run.Violate(prop+"/untrusted_update_applied", "", "r%d never trusted r%d, yet it holds cid%d=%s, which r%d submitted", i, u, c, nm, u)
					}
				}
			}
			w.run.Probe("untrusted_publisher_checked")
		}
	}

	// 5. tracker hand-off: the last hook call per CID agrees with the final pinset
	for i, r := range w.reps {
		if w.faulted[i] {
			continue
		}
		r.tracker.mu.Lock()
		lastCall := map[string]hookCall{}
		told := map[string]bool{}
		for _, hc := range r.tracker.calls {
			lastCall[hc.Cid] = hc
			if hc.Track {
				told[hc.Nonce] = true
			}
		}
		r.tracker.mu.Unlock()
		for ci, c := range w.cids {
			nm, has := states[i][ci]
			lc, called := lastCall[c.String()]
			if !want("C02/x") {
				continue
			}
			switch {
			case has && !told[nm]:
				w.run.Violate("C02/tracker_never_told", "pin", "r%d holds cid%d=%s but its tracker was never told to track that pin", i, ci, nm)
			case has && called && !lc.Track:
				w.run.Violate("C02/tracker_stale_untrack", "untrack after track", "r%d holds cid%d=%s and its tracker was told to track it, but a later Untrack of that CID followed (the tombstones of superseded versions fire the delete hook although the key is still in the set)", i, ci, nm)
			case has && called && lc.Track && lc.Nonce != nm:
				w.run.Violate("C02/tracker_told_old_value", "", "r%d holds cid%d=%s but the last Track its tracker received carried %s", i, ci, nm, lc.Nonce)
			case !has && called && lc.Track:
				w.run.Violate("C02/tracker_never_told", "unpin", "cid%d is not in r%d's pinset but the last thing its tracker heard is Track(%s)", ci, i, lc.Nonce)
			}
		}
		w.run.Probe("tracker_handoffs_checked")
	}
}

func (w *world) neverTrusted(i, j int) bool {
	// trusts[] only ever records the current configuration plus Trust calls;
	// Distrust deletes. A replica that is untrusted at the end and was never the
	// target of a Trust step is "never trusted".
	for _, raw := range w.plan.Steps {
		var s Step
		json.Unmarshal(raw, &s)
		n := len(w.reps)
		if (s.Op == "trust" || s.Op == "trust_race") && ((s.Peer%n)+n)%n == i && s.B%n == j {
			return false
		}
		if s.Op == "trust_race" && ((s.Peer%n)+n)%n == i && s.N%n == j {
			return false
		}
	}
	return true
}

func withoutMarkers(m map[int]string) map[int]string {
	out := map[int]string{}
	for k, v := range m {
		if k >= 0 {
			out[k] = v
		}
	}
	return out
}
