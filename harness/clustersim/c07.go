package clustersim

import (
	"context"
	"encoding/json"
	"fmt"
	"os"
	"path/filepath"
	"reflect"
	"sort"
	"strings"
	"testing/synctest"
	"time"

	cid "github.com/ipfs/go-cid"
	ds "github.com/ipfs/go-datastore"
	dssync "github.com/ipfs/go-datastore/sync"
	ipfscluster "github.com/ipfs/ipfs-cluster"
	"github.com/ipfs/ipfs-cluster/allocator/descendalloc"
	"github.com/ipfs/ipfs-cluster/api"
	"github.com/ipfs/ipfs-cluster/consensus/crdt"
	"github.com/ipfs/ipfs-cluster/consensus/raft"
	"github.com/ipfs/ipfs-cluster/version"
	peer "github.com/libp2p/go-libp2p-core/peer"
	rpc "github.com/libp2p/go-libp2p-gorpc"
	dual "github.com/libp2p/go-libp2p-kad-dht/dual"
	pubsub "github.com/libp2p/go-libp2p-pubsub"

	"verif/simkit"
)

// C07: who may call what. A real Cluster (target) with a real Raft or CRDT
// consensus component as the source of trust; remote callers are libp2p hosts
// with real gorpc clients. The endpoint set is read by reflection from the RPC
// service types at run time.

// The specification table: which endpoints peers call on EACH OTHER (so a
// trusted remote caller may use them) and which are open to anybody. Written
// from the statement's categories; everything not listed is local-only. An
// endpoint found in the code but not named here or in localOnly makes the
// check stop with "specification incomplete" (exit 2), never pass silently.
var openEndpoints = map[string]bool{
	"Cluster.ID": true, "Cluster.Version": true, "Cluster.PeerAdd": true, // identity, version, join handshake
}
var peerToPeer = map[string]bool{
	// leader redirect
	"Consensus.LogPin": true, "Consensus.LogUnpin": true, "Consensus.AddPeer": true, "Consensus.RmPeer": true,
	// broadcast status / recover / gc on every peer
	"PinTracker.Status": true, "PinTracker.StatusAll": true, "PinTracker.Recover": true,
	"Cluster.RecoverAllLocal": true, "Cluster.RecoverLocal": true, "Cluster.RepoGCLocal": true,
	// adding content sends blocks to the allocated peers; repo stat and swarm peers are collected from every peer
	"IPFSConnector.BlockPut": true, "IPFSConnector.RepoStat": true, "IPFSConnector.SwarmPeers": true,
	// membership: remove a peer, list peers (connect graph)
	"Cluster.PeerRemove": true, "Cluster.Peers": true,
}
var localOnly = map[string]bool{
	// facade operations that fan out or read/modify the pinset
	"Cluster.Pin": true, "Cluster.Unpin": true, "Cluster.PinPath": true, "Cluster.UnpinPath": true, "Cluster.Pins": true, "Cluster.PinGet": true,
	"Cluster.Status": true, "Cluster.StatusAll": true, "Cluster.StatusAllLocal": true, "Cluster.StatusLocal": true,
	"Cluster.Recover": true, "Cluster.RecoverAll": true, "Cluster.RepoGC": true, "Cluster.ConnectGraph": true, "Cluster.Join": true,
	"Cluster.BlockAllocate": true, "Cluster.SendInformerMetric": true, "Cluster.SendInformersMetrics": true, "Cluster.Alerts": true,
	// driving the tracker or the IPFS daemon directly
	"PinTracker.Track": true, "PinTracker.Untrack": true, "PinTracker.RecoverAll": true,
	"IPFSConnector.Pin": true, "IPFSConnector.Unpin": true, "IPFSConnector.PinLs": true, "IPFSConnector.PinLsCid": true,
	"IPFSConnector.ConfigKey": true, "IPFSConnector.Resolve": true, "IPFSConnector.BlockGet": true,
	// consensus peer listing, monitor reads
	"Consensus.Peers": true, "PeerMonitor.LatestMetrics": true, "PeerMonitor.MetricNames": true,
}

type endpoint struct {
	svc, method string
	in, out     reflect.Type
}

func (e endpoint) name() string { return e.svc + "." + e.method }

func enumerate() []endpoint {
	var eps []endpoint
	ctxT := reflect.TypeOf((*context.Context)(nil)).Elem()
	errT := reflect.TypeOf((*error)(nil)).Elem()
	for _, s := range []struct {
		name string
		t    reflect.Type
	}{
		{"Cluster", reflect.TypeOf(&ipfscluster.ClusterRPCAPI{})},
		{"PinTracker", reflect.TypeOf(&ipfscluster.PinTrackerRPCAPI{})},
		{"IPFSConnector", reflect.TypeOf(&ipfscluster.IPFSConnectorRPCAPI{})},
		{"Consensus", reflect.TypeOf(&ipfscluster.ConsensusRPCAPI{})},
		{"PeerMonitor", reflect.TypeOf(&ipfscluster.PeerMonitorRPCAPI{})},
	} {
		for i := 0; i < s.t.NumMethod(); i++ {
			m := s.t.Method(i)
			ft := m.Type
			if ft.NumIn() != 4 || ft.NumOut() != 1 || !ft.In(1).Implements(ctxT) || ft.Out(0) != errT || ft.In(3).Kind() != reflect.Ptr {
				continue
			}
			eps = append(eps, endpoint{svc: s.name, method: m.Name, in: ft.In(2), out: ft.In(3)})
		}
	}
	sort.Slice(eps, func(i, j int) bool { return eps[i].name() < eps[j].name() })
	return eps
}

func genC07(tier string, seed uint64) *simkit.Plan {
	r := simkit.NewRng(seed)
	p := &simkit.Plan{Property: "C07", Harness: "clustersim", Seed: seed, RTSeed: r.Uint64() % 1000}
	// trust configuration of the target
	p.Scenario = []string{"raft", "crdt_list", "crdt_empty", "crdt_all"}[r.Intn(4)]
	p.SetKnob("order", int64(r.Intn(1<<30)))
	// settings that have nothing to do with trust must not change who is served
	p.SetKnob("tracing", int64(r.Intn(2)))
	p.SetKnob("cfgpath", int64(r.Intn(2)))
	p.SetKnob("cfg_resave", int64(r.Pick(2, 2, 1))) // 1: saved and read again, 2: "nobody" as a section without the key
	n := r.Range(1, 4)
	for i := 0; i < n; i++ {
		p.AddStep(Step{Op: "walk", N: r.Intn(1 << 30)})
		if r.Chance(0.7) {
			op := "trust"
			if r.Chance(0.5) {
				op = "distrust"
			}
			p.AddStep(Step{Op: op, Target: r.Range(1, 2), DelayMs: r.Range(0, 3000)})
		}
	}
	p.AddStep(Step{Op: "walk", N: r.Intn(1 << 30)})
	return p
}

func argFor(t reflect.Type, self peer.ID, method string) reflect.Value {
	c := simkit.TestCid(7)
	switch t {
	case reflect.TypeOf(struct{}{}):
		return reflect.ValueOf(struct{}{})
	case reflect.TypeOf(&api.Pin{}):
		p := api.PinCid(c)
		p.ReplicationFactorMin, p.ReplicationFactorMax = -1, -1
		return reflect.ValueOf(p)
	case reflect.TypeOf(cid.Cid{}):
		return reflect.ValueOf(c)
	case reflect.TypeOf(peer.ID("")):
		if strings.Contains(method, "Rm") || strings.Contains(method, "Remove") {
			return reflect.ValueOf(simkit.TestPeer(9)) // not a member: removing it is a no-op
		}
		return reflect.ValueOf(self) // already a member: adding it is a no-op
	case reflect.TypeOf(""):
		switch method {
		case "PinLs":
			return reflect.ValueOf("recursive")
		case "Resolve":
			return reflect.ValueOf("/ipfs/" + c.String())
		case "LatestMetrics":
			return reflect.ValueOf("ping")
		}
		return reflect.ValueOf("Datastore/StorageMax")
	case reflect.TypeOf(api.TrackerStatus(0)):
		return reflect.ValueOf(api.TrackerStatus(0))
	case reflect.TypeOf(&api.PinPath{}):
		return reflect.ValueOf(&api.PinPath{Path: "/ipfs/" + c.String()})
	case reflect.TypeOf(api.Multiaddr{}):
		m, _ := api.NewMultiaddr("/ip4/10.250.0.9/tcp/9096/p2p/" + simkit.TestPeer(9).Pretty())
		return reflect.ValueOf(m)
	case reflect.TypeOf(&api.NodeWithMeta{}):
		return reflect.ValueOf(&api.NodeWithMeta{Cid: c, Data: []byte("x")})
	}
	return reflect.Zero(t)
}

func execC07(plan *simkit.Plan, run *simkit.Run) {
	run.NoFaultDimension = true
	ctx, cancel := context.WithCancel(context.Background())
	base := os.Getenv("VERIF_TMP")
	if base == "" {
		base = "/dev/shm"
	}
	dir := filepath.Join(base, fmt.Sprintf("c07-%d-%s", os.Getpid(), plan.Digest()))
	os.MkdirAll(dir, 0o755)
	defer os.RemoveAll(dir)
	net := simkit.NewNet(run, 2*time.Millisecond)
	h0 := net.AddPeer(0)
	h1 := net.AddPeer(1)
	h2 := net.AddPeer(2)
	self := h0.ID()
	ids := []peer.ID{h0.ID(), h1.ID(), h2.ID()}

	// ---- the target's consensus component: the subject of the trust clauses
	var cons ipfscluster.Consensus
	trusted := map[int]bool{1: false, 2: false} // the oracle's own notion, from the statement
	store := dssync.MutexWrap(ds.NewMapDatastore())
	switch plan.Scenario {
	case "raft":
		cfg := &raft.Config{}
		cfg.Default()
		cfg.DataFolder = filepath.Join(dir, "raft")
		cfg.RaftConfig.HeartbeatTimeout = 200 * time.Millisecond
		cfg.RaftConfig.ElectionTimeout = 200 * time.Millisecond
		cfg.RaftConfig.LeaderLeaseTimeout = 200 * time.Millisecond
		cfg.WaitForLeaderTimeout = 10 * time.Second
		c, err := raft.NewConsensus(h0, cfg, store, false)
		if err != nil {
			panic(err)
		}
		cons = c
		trusted[1], trusted[2] = true, true // Raft: every peer is trusted
	default:
		dht, err := dual.New(ctx, h0)
		if err != nil {
			panic(err)
		}
		ps, err := pubsub.NewGossipSub(ctx, h0, pubsub.WithMessageSigning(true), pubsub.WithStrictSignatureVerification(true))
		if err != nil {
			panic(err)
		}
		// the trust configuration goes through the real loading paths: the JSON
		// section of service.json, or the defaults overridden from the environment
		// (CLUSTER_CRDT_TRUSTEDPEERS: init, docker and follower set-ups)
		var listed []string
		switch plan.Scenario {
		case "crdt_list":
			listed = []string{ids[1].Pretty()}
			trusted[1] = true
		case "crdt_empty":
			listed = []string{}
		case "crdt_all":
			listed = []string{"*"}
			trusted[1], trusted[2] = true, true
		}
		cfg := &crdt.Config{}
		switch plan.Knob("cfgpath", 0) {
		case 0:
			section := map[string]interface{}{"cluster_name": "c07", "trusted_peers": listed}
			if len(listed) == 0 && plan.Knob("cfg_resave", 0) == 2 {
				// "nobody" written the short way: a section without the key (whenever a
				// section is parsed, trust-all is off unless '*' is listed)
				delete(section, "trusted_peers")
				run.Probe("trust_config_without_the_key")
			}
			js, _ := json.Marshal(section)
			if err := cfg.LoadJSON(js); err != nil {
				panic(err)
			}
			if plan.Knob("cfg_resave", 0) == 1 {
				// the file was written back and read again (init, follower set-ups and
				// every save of service.json do): trust is what it was
				js2, err := cfg.ToJSON()
				if err != nil {
					panic(err)
				}
				cfg = &crdt.Config{}
				if err := cfg.LoadJSON(js2); err != nil {
					panic(err)
				}
				run.Probe("trust_config_saved_and_reloaded")
			}
			run.Probe("trust_config_from_json")
		default:
			cfg.Default()
			cfg.ClusterName = "c07"
			os.Setenv("CLUSTER_CRDT_TRUSTEDPEERS", strings.Join(listed, ","))
			err := cfg.ApplyEnvVars()
			os.Unsetenv("CLUSTER_CRDT_TRUSTEDPEERS")
			if err != nil {
				panic(err)
			}
			if len(listed) == 0 {
				// an empty variable cannot express "nobody": that set-up is JSON only
				cfg.TrustAll, cfg.TrustedPeers = false, nil
			}
			run.Probe("trust_config_from_env")
		}
		c, err := crdt.New(h0, dht, ps, cfg, store)
		if err != nil {
			panic(err)
		}
		cons = c
	}
	ccfg := &ipfscluster.Config{}
	ccfg.Default()
	ccfg.Peername = "target"
	ccfg.SetBaseDir(dir)
	ccfg.MDNSInterval = 0
	ccfg.Tracing = plan.Knob("tracing", 0) == 1
	ccfg.ReplicationFactorMin, ccfg.ReplicationFactorMax = -1, -1
	ccfg.StateSyncInterval, ccfg.PinRecoverInterval, ccfg.PeerWatchInterval, ccfg.MonitorPingInterval = 100*time.Hour, 100*time.Hour, 100*time.Hour, 100*time.Hour
	tr := simkit.NewModelTracker(self)
	ipfsM := simkit.NewModelIPFS(run, "ipfs0")
	ipfs := simkit.NewModelIPFSConn(ipfsM)
	ipfs.Paths["/ipfs/"+simkit.TestCid(7).String()] = simkit.TestCid(7)
	mon := simkit.NewModelMonitor(run, "mon0", nil)
	inf := simkit.NewModelInformer(informerName, 1000*time.Hour)
	cl, err := ipfscluster.NewCluster(ctx, h0, nil, ccfg, dssync.MutexWrap(ds.NewMapDatastore()), cons, nil, ipfs, tr, mon, descendalloc.NewAllocator(), []ipfscluster.Informer{inf}, simkit.NopTracer{})
	if err != nil {
		panic(err)
	}
	net.ConnectAll()
	defer func() {
		cl.Shutdown(context.Background())
		cancel()
		net.Close()
		synctest.Wait()
	}()
	select {
	case <-cl.Ready():
	case <-time.After(30 * time.Second):
		panic("target cluster not ready")
	}
	callers := []*rpc.Client{tr.Client, rpc.NewClient(h1, version.RPCProtocol), rpc.NewClient(h2, version.RPCProtocol)}
	eps := enumerate()
	for _, e := range eps {
		if !openEndpoints[e.name()] && !peerToPeer[e.name()] && !localOnly[e.name()] {
			// the statement cannot say whether a trusted peer may use an endpoint the
			// specification has never heard of; the untrusted column is still decided
			panic("C07 specification incomplete: endpoint " + e.name() + " is not classified")
		}
	}
	run.ProbeN("endpoints_found", len(eps))

	effects := func() string {
		st, err := cons.State(ctx)
		n := -1
		if err == nil {
			if l, err := st.List(ctx); err == nil {
				n = len(l)
			}
		}
		return fmt.Sprintf("tracker=%d ipfs=%d blocks=%d pins=%d", len(tr.Calls), len(ipfsM.Calls), len(ipfs.Blocks), n)
	}

	walk := func(order int) {
		r := simkit.NewRng(uint64(order))
		perm := r.Perm(len(eps) * 3)
		for _, x := range perm {
			e := eps[x/3]
			who := x % 3
			dest := self
			if who == 0 {
				dest = ""
			}
			before := effects()
			arg := argFor(e.in, self, e.method)
			reply := reflect.New(e.out.Elem())
			cctx, ccancel := context.WithTimeout(ctx, 20*time.Second)
			var cerr error
			done := make(chan struct{})
			go func() {
				cerr = callers[who].CallContext(cctx, dest, e.svc, e.method, arg.Interface(), reply.Interface())
				close(done)
			}()
			select {
			case <-done:
			case <-time.After(25 * time.Second):
				cerr = fmt.Errorf("call did not return")
			}
			ccancel()
			refused := cerr != nil && rpc.IsAuthorizationError(cerr)
			run.Op()
			class := []string{"self", "peer1", "peer2"}[who]
			// what the statement dictates
			var mustRefuse, mustAllow bool
			switch {
			case who == 0:
				mustAllow = true
			case !trusted[who]:
				if openEndpoints[e.name()] {
					mustAllow = true
				} else {
					mustRefuse = true // default deny, also for endpoints nobody has classified
				}
			default: // trusted remote
				if localOnly[e.name()] {
					mustRefuse = true
				} else {
					mustAllow = true
				}
			}
			run.Ev("caller", "rpc", "%s %s trusted=%v -> refused=%v err=%v", class, e.name(), who == 0 || trusted[who], refused, short(cerr))
			if mustRefuse && !refused {
				clause := "C07/untrusted_caller_not_refused"
				if trusted[who] {
					clause = "C07/local_endpoint_open_to_remote"
				}
				run.Violate(clause, e.name(), "%s (%s, trusted=%v, trust config %s) called %s and was not refused (err=%v)", class, map[bool]string{true: "trusted", false: "untrusted"}[trusted[who]], trusted[who], plan.Scenario, e.name(), cerr)
			}
			if mustAllow && refused {
				clause := "C07/allowed_caller_refused"
				if who == 0 {
					clause = "C07/self_refused"
				}
				run.Violate(clause, e.name(), "%s (trusted=%v, trust config %s) called %s and was refused", class, who == 0 || trusted[who], plan.Scenario, e.name())
			}
			if refused {
				synctest.Wait()
				if after := effects(); after != before {
					run.Violate("C07/refused_call_had_effect", e.name(), "%s was refused to %s but the target changed: %s -> %s", e.name(), class, before, after)
				}
				run.Probe("refusals")
			} else {
				run.Probe("allowed_calls")
			}
		}
		run.Probe("walks")
	}

	for _, raw := range plan.Steps {
		s := decode(raw)
		sleepMs(s.DelayMs)
		run.Step()
		run.AbandonIfWallOver()
		switch s.Op {
		case "walk":
			walk(s.N)
		case "trust", "distrust":
			t := s.Target
			if t != 1 && t != 2 {
				t = 1
			}
			if s.Op == "trust" {
				cons.Trust(ctx, ids[t])
			} else {
				cons.Distrust(ctx, ids[t])
			}
			// what the statement says about it: Raft trusts everyone whatever is
			// called; trust-all stays trust-all; otherwise later calls decide
			if plan.Scenario == "crdt_list" || plan.Scenario == "crdt_empty" {
				trusted[t] = s.Op == "trust"
			}
			run.Ev("sim", s.Op, "peer%d", t)
			run.Probe("trust_changes")
		}
	}
}

func short(err error) string {
	if err == nil {
		return "<nil>"
	}
	s := err.Error()
	if len(s) > 90 {
		s = s[:90] + "…"
	}
	return s
}
