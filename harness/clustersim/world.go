// Package clustersim runs real ipfscluster.Cluster peers (root package: pin /
// unpin / update, allocate, alerts + repin, StateSync, RPC server and policy,
// publish loops, Shutdown) on mocknet hosts, with the real allocators, against
// model consensus / monitor / tracker / IPFS components owned by the
// simulator. Serves C03, C04, C10 (and scenarios of C06, C07, C09, C18).
package clustersim

import (
	"context"
	"encoding/json"
	"fmt"
	"os"
	"path/filepath"
	"sort"
	"strings"
	"testing"
	"testing/synctest"
	"time"

	cid "github.com/ipfs/go-cid"
	ds "github.com/ipfs/go-datastore"
	dssync "github.com/ipfs/go-datastore/sync"
	ipfscluster "github.com/ipfs/ipfs-cluster"
	"github.com/ipfs/ipfs-cluster/allocator/ascendalloc"
	"github.com/ipfs/ipfs-cluster/allocator/descendalloc"
	"github.com/ipfs/ipfs-cluster/api"
	"github.com/ipfs/ipfs-cluster/informer/disk"
	"github.com/ipfs/ipfs-cluster/informer/numpin"
	peer "github.com/libp2p/go-libp2p-core/peer"
	ma "github.com/multiformats/go-multiaddr"

	"verif/simkit"
)

// Step is the union of the step vocabularies of the clustersim scenarios.
type Step struct {
	Op       string   `json:"op"`
	DelayMs  int      `json:"delay_ms,omitempty"`
	Peer     int      `json:"peer,omitempty"`   // acting cluster peer
	Target   int      `json:"target,omitempty"` // peer a metric belongs to / failing peer
	Cid      int      `json:"cid,omitempty"`
	From     int      `json:"from,omitempty"` // update source cid index (+1; 0 = none)
	RMin     int      `json:"rmin,omitempty"`
	RMax     int      `json:"rmax,omitempty"`
	Name     string   `json:"name,omitempty"`
	Direct   bool     `json:"direct,omitempty"`
	ExpireS  int      `json:"expire_s,omitempty"` // seconds relative to now (0 = none)
	Meta     []string `json:"meta,omitempty"`     // k=v
	User     []int    `json:"user,omitempty"`     // user (priority) allocations
	Origins  int      `json:"origins,omitempty"`
	OriginIx []int    `json:"origin_ix,omitempty"` // explicit origin list (indices into a pool of 5 addresses)
	Allocs   []int    `json:"allocs,omitempty"`    // seeded allocations
	Value    string   `json:"value,omitempty"`
	Valid    bool     `json:"valid,omitempty"`
	TTLMs    int      `json:"ttl_ms,omitempty"`
	Type     string   `json:"type,omitempty"` // seeded pin type
	Path     bool     `json:"path,omitempty"`
	AsMeta   bool     `json:"as_meta,omitempty"` // the request is a meta entry (what the sharding adder sends over the Pin endpoint)
	Via      string   `json:"via,omitempty"`     // alert | remove
	Order    []int    `json:"order,omitempty"`
	N        int      `json:"n,omitempty"`
	Overlap  bool     `json:"overlap,omitempty"`
}

type H struct{}

func (H) Name() string { return "clustersim" }

func (H) Generate(prop, tier string, seed uint64) *simkit.Plan {
	switch prop {
	case "C03":
		return genC03(tier, seed)
	case "C04":
		return genC04(tier, seed)
	case "C10":
		return genC10(tier, seed)
	case "C09":
		return genC09(tier, seed)
	case "C07":
		return genC07(tier, seed)
	case "C06":
		return genC06(tier, seed)
	}
	panic("clustersim: no generator for " + prop)
}

func (H) Execute(t *testing.T, plan *simkit.Plan, run *simkit.Run) {
	run.Begin()
	switch plan.Property {
	case "C03":
		execC03(plan, run)
	case "C04":
		execC04(plan, run)
	case "C10":
		execC10(plan, run)
	case "C09":
		execC09(plan, run)
	case "C07":
		execC07(plan, run)
	case "C06":
		execC06(plan, run)
	default:
		panic("clustersim: no executor for " + plan.Property)
	}
}

// ---------------------------------------------------------------- world

type node struct {
	idx   int
	id    peer.ID
	cl    *ipfscluster.Cluster
	cfg   *ipfscluster.Config
	cons  *simkit.ModelConsensus
	mon   *simkit.ModelMonitor
	tr    *simkit.ModelTracker
	ipfsM *simkit.ModelIPFS
	ipfs  *simkit.ModelIPFSConn
	inf   *simkit.ModelInformer
}

type world struct {
	run     *simkit.Run
	plan    *simkit.Plan
	net     *simkit.Net
	sh      *simkit.SharedPinset
	nodes   []*node   // real cluster peers
	allIDs  []peer.ID // real + virtual members
	cids    []cid.Cid
	baseDir string
	ctx     context.Context
	cancel  context.CancelFunc
}

type worldOpts struct {
	real     int // real cluster peers
	members  int // total members (>= real); the rest are virtual (IDs with metrics only)
	rmin     int
	rmax     int
	follower bool
	// followerIdx+1: that one peer alone runs in follower mode (0: none)
	followerOne int
	noRepin     bool
	allocator   string // ascend | descend
	ncids       int
	pingMs      int
	infTTL      time.Duration
	syncEvery   time.Duration
	// realInformers: use informer/disk and informer/numpin (over the model IPFS) instead of the model informer
	realInformers bool
	diskTTL       time.Duration
	numpinTTL     time.Duration
}

const informerName = "freespace"

func newWorld(run *simkit.Run, plan *simkit.Plan, o worldOpts) *world {
	w := &world{run: run, plan: plan}
	w.ctx, w.cancel = context.WithCancel(context.Background())
	base := os.Getenv("VERIF_TMP")
	if base == "" {
		base = "/dev/shm"
	}
	w.baseDir = filepath.Join(base, fmt.Sprintf("cl-%d-%s", os.Getpid(), plan.Digest()))
	os.MkdirAll(w.baseDir, 0o755)
	for i := 0; i < o.ncids; i++ {
		w.cids = append(w.cids, simkit.TestCid(i))
	}
	for i := 0; i < o.members; i++ {
		w.allIDs = append(w.allIDs, simkit.TestPeer(i))
	}
	w.sh = simkit.NewSharedPinset(run, w.allIDs)
	w.net = simkit.NewNet(run, 2*time.Millisecond)
	for i := 0; i < o.real; i++ {
		h := w.net.AddPeer(i)
		n := &node{idx: i, id: h.ID()}
		cfg := &ipfscluster.Config{}
		if err := cfg.Default(); err != nil {
			panic(err)
		}
		cfg.Peername = fmt.Sprintf("sim%d", i)
		cfg.SetBaseDir(filepath.Join(w.baseDir, fmt.Sprintf("p%d", i)))
		os.MkdirAll(filepath.Join(w.baseDir, fmt.Sprintf("p%d", i)), 0o755)
		cfg.MDNSInterval = 0
		cfg.ReplicationFactorMin, cfg.ReplicationFactorMax = o.rmin, o.rmax
		cfg.FollowerMode = o.follower || (o.followerOne > 0 && o.followerOne-1 == i)
		cfg.DisableRepinning = o.noRepin
		cfg.LeaveOnShutdown = false
		cfg.StateSyncInterval = 100 * time.Hour
		if o.syncEvery > 0 {
			cfg.StateSyncInterval = o.syncEvery
		}
		cfg.PinRecoverInterval = 100 * time.Hour
		cfg.PeerWatchInterval = 100 * time.Hour
		cfg.MonitorPingInterval = 100 * time.Hour
		if o.pingMs > 0 {
			cfg.MonitorPingInterval = time.Duration(o.pingMs) * time.Millisecond
		}
		if plan.Seed%2 == 0 {
			// the daemon never uses a configuration as it was built: after loading it,
			// it overlays the environment (LoadJSONFileAndEnv), which writes every field
			// out to the JSON form and reads it back
			if err := cfg.ApplyEnvVars(); err != nil {
				run.Probe("config_env_overlay_rejected")
			} else {
				run.Probe("config_passed_through_env_overlay")
			}
		}
		n.cfg = cfg
		n.cons = simkit.NewModelConsensus(w.sh, n.id)
		n.mon = simkit.NewModelMonitor(run, fmt.Sprintf("mon%d", i), nil)
		n.tr = simkit.NewModelTracker(n.id)
		n.ipfsM = simkit.NewModelIPFS(run, fmt.Sprintf("ipfs%d", i))
		n.ipfs = simkit.NewModelIPFSConn(n.ipfsM)
		ttl := o.infTTL
		if ttl == 0 {
			ttl = 1000 * time.Hour
		}
		n.inf = simkit.NewModelInformer(informerName, ttl)
		var alloc ipfscluster.PinAllocator = descendalloc.NewAllocator()
		if o.allocator == "ascend" {
			alloc = ascendalloc.NewAllocator()
		}
		infs := []ipfscluster.Informer{n.inf}
		if o.realInformers {
			dc := &disk.Config{}
			dc.Default()
			dc.MetricTTL = o.diskTTL
			di, err := disk.NewInformer(dc)
			if err != nil {
				panic(err)
			}
			nc := &numpin.Config{}
			nc.Default()
			nc.MetricTTL = o.numpinTTL
			ni, err := numpin.NewInformer(nc)
			if err != nil {
				panic(err)
			}
			infs = []ipfscluster.Informer{di, ni}
		}
		cl, err := ipfscluster.NewCluster(w.ctx, h, nil, cfg, dssync.MutexWrap(ds.NewMapDatastore()), n.cons, nil, n.ipfs, n.tr, n.mon, alloc, infs, simkit.NopTracer{})
		if err != nil {
			panic(err)
		}
		n.cl = cl
		w.nodes = append(w.nodes, n)
	}
	w.net.ConnectAll()
	synctest.Wait()
	for _, n := range w.nodes {
		select {
		case <-n.cl.Ready():
		case <-time.After(5 * time.Second):
			panic("cluster peer did not become ready")
		}
	}
	return w
}

func (w *world) close() {
	for _, n := range w.nodes {
		n.cl.Shutdown(context.Background())
	}
	w.cancel()
	w.net.Close()
	synctest.Wait()
	os.RemoveAll(w.baseDir)
}

// logMetric records a metric for member `target` in the monitor of every real
// peer (all peers share one view) or of one peer.
func (w *world) logMetric(only int, target int, value string, valid bool, ttl time.Duration) {
	for _, n := range w.nodes {
		if only >= 0 && n.idx != only {
			continue
		}
		m := &api.Metric{Name: informerName, Peer: w.allIDs[target], Value: value, Valid: valid}
		m.Expire = time.Now().Add(ttl).UnixNano()
		n.mon.LogMetric(context.Background(), m)
	}
}

// health is the oracle's own reading of the monitor table at this instant.
type health struct {
	boundary bool
	present  bool
	valid    bool
	fresh    bool
	numeric  bool
	value    uint64
}

func (h health) healthy() bool { return h.present && h.valid && h.fresh }
func (h health) usable() bool  { return h.healthy() && h.numeric }

func (w *world) healthOf(n *node, target int) health {
	m, ok := n.mon.Recorded(informerName, w.allIDs[target])
	if !ok {
		return health{}
	}
	now := time.Now().UnixNano()
	h := health{present: true, valid: m.Valid, fresh: m.Expire > now, boundary: m.Expire == now}
	// numeric = a string of decimal digits that fits an unsigned 64-bit integer
	if v, ok := parseDigits(m.Value); ok {
		h.numeric, h.value = true, v
	}
	return h
}

func (w *world) idxOf(p peer.ID) int {
	for i, q := range w.allIDs {
		if q == p {
			return i
		}
	}
	return -1
}

func (w *world) idxs(ps []peer.ID) []int {
	out := make([]int, 0, len(ps))
	for _, p := range ps {
		out = append(out, w.idxOf(p))
	}
	return out
}

func (w *world) peersOf(ix []int) []peer.ID {
	out := make([]peer.ID, 0, len(ix))
	for _, i := range ix {
		out = append(out, w.allIDs[((i%len(w.allIDs))+len(w.allIDs))%len(w.allIDs)])
	}
	return out
}

// ---------------------------------------------------------------- pin rendering / comparison

// originList renders a list of origin indices (any order, any subset of a small pool).
func originList(ix []int) []ma.Multiaddr {
	var out []ma.Multiaddr
	for _, i := range ix {
		a, err := ma.NewMultiaddr(fmt.Sprintf("/ip4/192.168.1.%d/tcp/4001/p2p/%s", i+1, simkit.TestPeer(700+i).Pretty()))
		if err != nil {
			panic(err)
		}
		out = append(out, a)
	}
	return out
}

func originAddrs(n int) []ma.Multiaddr {
	var out []ma.Multiaddr
	for i := 0; i < n; i++ {
		a, err := ma.NewMultiaddr(fmt.Sprintf("/ip4/192.168.1.%d/tcp/4001/p2p/%s", i+1, simkit.TestPeer(700+i).Pretty()))
		if err != nil {
			panic(err)
		}
		out = append(out, a)
	}
	return out
}

func metaMap(kv []string) map[string]string {
	if len(kv) == 0 {
		return nil
	}
	m := map[string]string{}
	for _, s := range kv {
		p := strings.SplitN(s, "=", 2)
		if len(p) == 2 {
			m[p[0]] = p[1]
		}
	}
	return m
}

// optsKey renders the user-visible options of a pin in normal form: defaults
// are not substituted here (callers do it), expiry is cut to whole seconds
// (documented lossy field), user allocations are transient and left out.
func optsKey(o *api.PinOptions) string {
	var md []string
	for k, v := range o.Metadata {
		if k == "" {
			continue
		}
		md = append(md, k+"="+v)
	}
	sort.Strings(md)
	var og []string
	for _, a := range o.Origins {
		og = append(og, a.String())
	}
	sort.Strings(og)
	exp := int64(0)
	if !o.ExpireAt.IsZero() && o.ExpireAt.Unix() != 0 {
		exp = o.ExpireAt.Unix()
	}
	return fmt.Sprintf("name=%q mode=%d rf=%d/%d shard=%d exp=%d meta=%v origins=%v", o.Name, o.Mode, o.ReplicationFactorMin, o.ReplicationFactorMax, o.ShardSize, exp, md, og)
}

func pinKey(w *world, p *api.Pin, withAllocs bool) string {
	ref := ""
	if p.Reference != nil {
		ref = p.Reference.String()
	}
	upd := ""
	if p.PinUpdate.Defined() {
		upd = p.PinUpdate.String()
	}
	s := fmt.Sprintf("%s type=%d depth=%d ref=%s upd=%s %s", p.Cid, p.Type, p.MaxDepth, ref, upd, optsKey(&p.PinOptions))
	if withAllocs {
		ix := w.idxs(p.Allocations)
		sort.Ints(ix)
		s += fmt.Sprintf(" allocs=%v", ix)
	}
	return s
}

func (w *world) pinsetKey() []string {
	var out []string
	for _, p := range w.sh.List() {
		out = append(out, pinKey(w, p, true))
	}
	return out
}

func sameStrings(a, b []string) bool {
	if len(a) != len(b) {
		return false
	}
	for i := range a {
		if a[i] != b[i] {
			return false
		}
	}
	return true
}

func decode(raw json.RawMessage) Step {
	var s Step
	if err := json.Unmarshal(raw, &s); err != nil {
		panic(err)
	}
	return s
}

func sleepMs(ms int) {
	if ms > 0 {
		time.Sleep(time.Duration(ms) * time.Millisecond)
	}
}

func parseDigits(s string) (uint64, bool) {
	if s == "" || len(s) > 20 {
		return 0, false
	}
	var v uint64
	for i := 0; i < len(s); i++ {
		c := s[i]
		if c < '0' || c > '9' {
			return 0, false
		}
		d := uint64(c - '0')
		if v > (^uint64(0)-d)/10 {
			return 0, false
		}
		v = v*10 + d
	}
	return v, true
}
