package clustersim

import (
	"context"
	"fmt"
	"sort"
	"strings"
	"time"

	"github.com/ipfs/ipfs-cluster/api"
	peer "github.com/libp2p/go-libp2p-core/peer"
	rpc "github.com/libp2p/go-libp2p-gorpc"

	"verif/simkit"
)

var factorPairs = [][2]int{{0, 0}, {-1, -1}, {1, 1}, {1, 2}, {2, 3}, {3, 3}, {1, 8}, {2, 2}, {2, 5}, {4, 6}}

func genC03(tier string, seed uint64) *simkit.Plan {
	r := simkit.NewRng(seed)
	p := &simkit.Plan{Property: "C03", Harness: "clustersim", Seed: seed, RTSeed: r.Uint64() % 1000}
	members := r.Range(1, 8)
	ncids := r.Range(2, 5)
	p.SetKnob("members", int64(members))
	p.SetKnob("ncids", int64(ncids))
	p.SetKnob("ascend", int64(r.Intn(2)))
	def := factorPairs[1+r.Intn(len(factorPairs)-1)]
	p.SetKnob("def_rmin", int64(def[0]))
	p.SetKnob("def_rmax", int64(def[1]))
	values := []string{"0", "1", "5", "5", "10", "10", "100", "100", "250", "999", "18446744073709551615", "007", "abc", "", "12x", "0x10"}
	ttls := []int{50, 200, 1000, 5000, 30000, 600000, 600000, 600000}
	n := r.Range(15, 80)
	if tier == "thorough" && r.Chance(0.3) {
		n = r.Range(60, 200)
	}
	vt := 0
	var expiries []int
	// start with a metric for most members so that allocation is often possible
	for m := 0; m < members; m++ {
		if r.Chance(0.8) {
			p.AddStep(Step{Op: "metric", Target: m, Value: values[r.Intn(12)], Valid: true, TTLMs: ttls[4+r.Intn(4)]})
		}
	}
	nonce := 0
	for i := 0; i < n; i++ {
		d := r.Pick(6, 3, 1) * r.Range(0, 300)
		if len(expiries) > 0 && r.Chance(0.3) {
			e := expiries[r.Intn(len(expiries))]
			if e+1 > vt {
				d = e - vt + r.Range(-1, 1)
				if d < 0 {
					d = 0
				}
			}
		}
		vt += d
		st := Step{DelayMs: d}
		switch r.Pick(30, 12, 40, 6, 8) {
		case 0:
			st.Op = "metric"
			st.Target = r.Intn(members)
			st.Value = values[r.Intn(len(values))]
			st.Valid = !r.Chance(0.15)
			st.TTLMs = ttls[r.Intn(len(ttls))]
			if r.Chance(0.05) {
				st.TTLMs = -100
			}
			expiries = append(expiries, vt+st.TTLMs)
		case 1:
			st.Op = "seed"
			st.Cid = r.Intn(ncids)
			k := r.Range(1, min(4, members))
			perm := r.Perm(members)
			st.Allocs = perm[:k]
			fp := factorPairs[2+r.Intn(len(factorPairs)-2)]
			st.RMin, st.RMax = fp[0], fp[1]
			if r.Chance(0.15) {
				st.RMin, st.RMax = -1, -1
				st.Allocs = nil
			}
			st.Name = "seeded"
		case 2, 4:
			st.Op = "pin"
			if r.Chance(0.15) {
				st.Op = "blockallocate"
			}
			st.Cid = r.Intn(ncids)
			fp := factorPairs[r.Intn(len(factorPairs))]
			st.RMin, st.RMax = fp[0], fp[1]
			if r.Chance(0.15) {
				// only one factor given, the other comes from the configuration
				if r.Bool() {
					st.RMin = 0
				} else {
					st.RMax = 0
				}
			}
			nonce++
			st.Name = fmt.Sprintf("n%d", nonce)
			if r.Chance(0.2) {
				st.Name = "seeded" // identical options: the shortcut path
			}
			if r.Chance(0.35) {
				k := r.Range(1, min(3, members))
				st.User = r.Perm(members)[:k]
			}
			if r.Chance(0.08) {
				// what the adder submits: a pin that already carries the allocations its
				// blocks were sent to, with the factors the user gave - often none (0/0)
				st.Op = "pinpreset"
				st.Allocs = r.Perm(members)[:r.Range(1, min(4, members))]
				st.User = nil
				if r.Bool() {
					st.RMin, st.RMax = 0, 0
				} else {
					st.RMin, st.RMax = -1, -1
				}
			}
		case 3:
			st.Op = "exclude" // PeerRemove(target): re-pins what target holds with target excluded
			st.Target = r.Intn(members)
		}
		p.AddStep(st)
	}
	return p
}

func execC03(plan *simkit.Plan, run *simkit.Run) {
	members := int(plan.Knob("members", 3))
	alloc := "descend"
	if plan.Knob("ascend", 0) == 1 {
		alloc = "ascend"
	}
	w := newWorld(run, plan, worldOpts{real: 1, members: members, rmin: int(plan.Knob("def_rmin", -1)), rmax: int(plan.Knob("def_rmax", -1)),
		allocator: alloc, ncids: int(plan.Knob("ncids", 3))})
	defer w.close()
	run.NoFaultDimension = false
	n0 := w.nodes[0]
	// BlockAllocate is an RPC-only, local-only entry point (what the adder calls):
	// use the Cluster's own client, as handed to its components.
	client := n0.tr.Client
	ctx := context.Background()

	for _, raw := range plan.Steps {
		s := decode(raw)
		sleepMs(s.DelayMs)
		run.Step()
		switch s.Op {
		case "metric":
			w.logMetric(-1, s.Target%members, s.Value, s.Valid, time.Duration(s.TTLMs)*time.Millisecond)
			run.Ev("sim", "metric", "peer%d value=%q valid=%v ttl=%dms", s.Target%members, s.Value, s.Valid, s.TTLMs)
			if !s.Valid {
				run.Fault("invalid_metric")
			}
			if s.TTLMs < 1000 {
				run.Fault("short_ttl_metric")
			}
		case "seed":
			pin := api.PinCid(w.cids[s.Cid%len(w.cids)])
			pin.Name = s.Name
			pin.ReplicationFactorMin, pin.ReplicationFactorMax = s.RMin, s.RMax
			pin.Allocations = w.peersOf(s.Allocs)
			if err := w.sh.State().Add(ctx, pin); err != nil {
				panic(err)
			}
			run.Ev("sim", "seed", "cid%d rf=%d/%d allocs=%v", s.Cid%len(w.cids), s.RMin, s.RMax, s.Allocs)
		case "pin", "blockallocate":
			w.allocCall(n0, client, s)
		case "pinpreset":
			w.presetCall(n0, client, s)
		case "exclude":
			w.excludeCall(n0, s.Target%members)
		}
	}
}

// snapshot of the facts the oracle judges an allocation against
type allocFacts struct {
	h        []health
	existing *api.Pin
	boundary bool // some metric expires in this very instant: either reading is right
}

func (w *world) facts(n *node, c int) allocFacts {
	f := allocFacts{}
	for i := range w.allIDs {
		h := w.healthOf(n, i)
		if h.boundary {
			f.boundary = true
		}
		f.h = append(f.h, h)
	}
	if p, err := w.sh.State().Get(context.Background(), w.cids[c]); err == nil {
		f.existing = p
	}
	return f
}

func (w *world) allocCall(n *node, client *rpc.Client, s Step) {
	ctx := context.Background()
	ci := s.Cid % len(w.cids)
	f := w.facts(n, ci)
	before := w.pinsetKey()
	opts := api.PinOptions{ReplicationFactorMin: s.RMin, ReplicationFactorMax: s.RMax, Name: s.Name, UserAllocations: w.peersOf(s.User)}
	rmin, rmax := s.RMin, s.RMax
	if rmin == 0 {
		rmin = n.cfg.ReplicationFactorMin
	}
	if rmax == 0 {
		rmax = n.cfg.ReplicationFactorMax
	}
	w.run.Op()
	t0 := time.Now()
	var allocs []peer.ID
	var err error
	identical := false
	if s.Op == "pin" {
		var res *api.Pin
		res, err = n.cl.Pin(ctx, w.cids[ci], opts)
		if err == nil {
			stored, gerr := w.sh.State().Get(ctx, w.cids[ci])
			if gerr != nil {
				w.run.Violate("C03/pin_not_stored", "", "Pin(cid%d) returned nil but the pinset has no entry", ci)
				return
			}
			allocs = stored.Allocations
			if fmt.Sprint(w.idxs(res.Allocations)) != fmt.Sprint(w.idxs(stored.Allocations)) {
				w.run.Violate("C03/returned_differs_from_stored", "", "Pin(cid%d) returned allocations %v but stored %v", ci, w.idxs(res.Allocations), w.idxs(stored.Allocations))
			}
		}
		// identical user options: the documented shortcut keeps the existing entry as it is
		if f.existing != nil && len(s.User) == 0 {
			req := opts
			req.ReplicationFactorMin, req.ReplicationFactorMax = rmin, rmax
			identical = optsKey(&req) == optsKey(&f.existing.PinOptions)
		}
	} else {
		pin := api.PinWithOpts(w.cids[ci], opts)
		var out []peer.ID
		err = client.CallContext(ctx, "", "Cluster", "BlockAllocate", pin, &out)
		allocs = out
		if rmin < 0 {
			return // BlockAllocate with factor -1 lists the current peers: a different contract (not C03)
		}
	}
	if el := time.Since(t0); el > 0 && s.Op == "pin" {
		// time passed inside the call: the snapshot may be stale, do not judge
		w.run.Probe("call_took_time")
		return
	}
	w.run.Ev("client", s.Op, "cid%d rf=%d/%d user=%v -> allocs=%v err=%v", ci, rmin, rmax, s.User, w.idxs(allocs), err)
	w.judgeAlloc(s.Op, ci, f, rmin, rmax, nil, s.User, allocs, err, identical, before, s.Op == "pin")
}

// presetCall: the Cluster.Pin endpoint given a pin with allocations already set
// (the adder does this). With positive factors those are taken as they are - the
// decision was BlockAllocate's - but when the factors, the configured defaults
// filled in, are -1 the stored list is empty all the same.
func (w *world) presetCall(n *node, client *rpc.Client, s Step) {
	ctx := context.Background()
	ci := s.Cid % len(w.cids)
	rmin, rmax := s.RMin, s.RMax
	if rmin == 0 {
		rmin = n.cfg.ReplicationFactorMin
	}
	if rmax == 0 {
		rmax = n.cfg.ReplicationFactorMax
	}
	pin := api.PinWithOpts(w.cids[ci], api.PinOptions{ReplicationFactorMin: s.RMin, ReplicationFactorMax: s.RMax, Name: s.Name})
	pin.Allocations = w.peersOf(s.Allocs)
	w.run.Op()
	var out api.Pin
	err := client.CallContext(ctx, "", "Cluster", "Pin", pin, &out)
	w.run.Ev("client", "pinpreset", "cid%d rf=%d/%d (given %d/%d) preset=%v -> err=%v", ci, rmin, rmax, s.RMin, s.RMax, s.Allocs, err)
	if err != nil || rmin != -1 || rmax != -1 {
		w.run.Probe("preset_allocations_not_everywhere")
		return
	}
	w.run.Probe("preset_allocations_with_factor_minus_one")
	stored, gerr := w.sh.State().Get(ctx, w.cids[ci])
	if gerr != nil {
		w.run.Violate("C03/pin_not_stored", "", "Pin(cid%d) returned nil but the pinset has no entry", ci)
		return
	}
	if len(stored.Allocations) != 0 || len(out.Allocations) != 0 {
		w.run.Violate("C03/everywhere_not_empty", "preset", "pin cid%d submitted with allocations %v and factors %d/%d (effective -1/-1): replication factor -1 must store an empty allocation list, stored %v, returned %v", ci, s.Allocs, s.RMin, s.RMax, w.idxs(stored.Allocations), w.idxs(out.Allocations))
	}
}

func (w *world) excludeCall(n *node, target int) {
	if w.allIDs[target] == n.id {
		return
	}
	ctx := context.Background()
	// judge every pin the target holds
	type pre struct {
		ci int
		f  allocFacts
	}
	var pres []pre
	for ci := range w.cids {
		f := w.facts(n, ci)
		if f.existing != nil && containsIdx(w.idxs(f.existing.Allocations), target) {
			pres = append(pres, pre{ci, f})
		}
	}
	w.run.Op()
	w.run.Fault("exclusion")
	err := n.cl.PeerRemove(ctx, w.allIDs[target])
	w.run.Ev("client", "exclude", "PeerRemove(peer%d) err=%v", target, err)
	// keep the membership as it was: exclusion is what is under test here
	n.cons.AddPeer(ctx, w.allIDs[target])
	for _, p := range pres {
		stored, gerr := w.sh.State().Get(ctx, w.cids[p.ci])
		if gerr != nil {
			w.run.Violate("C03/pin_lost_on_exclusion", "", "cid%d disappeared while re-pinning away from peer%d", p.ci, target)
			continue
		}
		ex := p.f.existing
		if ex.IsPinEverywhere() {
			continue
		}
		// the re-pin either succeeded (stored entry is the new allocation) or
		// failed (entry unchanged): both are judged by the same rules.
		changed := fmt.Sprint(sortedInts(w.idxs(stored.Allocations))) != fmt.Sprint(sortedInts(w.idxs(ex.Allocations)))
		if !changed {
			// a failed re-pin and one that kept everything look the same here;
			// whether it had to be re-homed is C10's clause.
			continue
		}
		w.run.Probe("exclusion_reallocated")
		w.judgeAlloc("exclude", p.ci, p.f, ex.ReplicationFactorMin, ex.ReplicationFactorMax, []int{target}, nil, stored.Allocations, nil, false, nil, false)
	}
}

func containsIdx(xs []int, x int) bool {
	for _, y := range xs {
		if x == y {
			return true
		}
	}
	return false
}

func sortedInts(x []int) []int {
	y := append([]int{}, x...)
	sort.Ints(y)
	return y
}

// judgeAlloc is the C03 oracle. unchangedOnError: the call was a Pin (the
// pinset must be untouched when it fails).
func (w *world) judgeAlloc(op string, ci int, f allocFacts, rmin, rmax int, excluded []int, user []int, allocs []peer.ID, err error, identical bool, before []string, isPin bool) {
	v := func(clause, format string, a ...interface{}) {
		w.run.Violate("C03/"+clause, op, "%s cid%d rf=%d/%d: %s", op, ci, rmin, rmax, fmt.Sprintf(format, a...))
	}
	// a pair that is invalid once the configured defaults are filled in cannot be
	// honoured by any allocation: the call must fail (the refusal itself, with the
	// pinset left alone, is C04's clause)
	if rmin == 0 || rmax == 0 || rmin < -1 || rmax < -1 || (rmin > rmax) || (rmin == -1) != (rmax == -1) {
		if err == nil && isPin {
			v("invalid_factors_accepted", "the effective factors are not a valid pair, yet the pin succeeded with allocations %v", w.idxs(allocs))
		}
		return
	}
	if f.boundary {
		w.run.Probe("expiry_instant_not_judged")
		return
	}
	w.run.Probe("allocations_judged")
	if rmin == -1 {
		if err == nil && len(allocs) != 0 {
			v("everywhere_not_empty", "replication factor -1 must store an empty allocation list, got %v", w.idxs(allocs))
		}
		return
	}
	var cur []int
	if f.existing != nil && !f.existing.IsPinEverywhere() {
		cur = w.idxs(f.existing.Allocations)
	}
	if identical {
		w.run.Probe("identical_options_shortcut")
		if err == nil && fmt.Sprint(sortedInts(w.idxs(allocs))) != fmt.Sprint(sortedInts(cur)) {
			v("identical_repin_changed_allocations", "re-pin with identical options changed the allocations from %v to %v", cur, w.idxs(allocs))
		}
		return
	}
	isCur := map[int]bool{}
	for _, c := range cur {
		isCur[c] = true
	}
	isEx := map[int]bool{}
	for _, e := range excluded {
		isEx[e] = true
	}
	isUser := map[int]bool{}
	for _, u := range user {
		isUser[((u%len(w.allIDs))+len(w.allIDs))%len(w.allIDs)] = true
	}
	// healthy current holders (not excluded) and usable candidates
	var healthyCur, cands []int
	for i, h := range f.h {
		switch {
		case isEx[i]:
		case isCur[i]:
			if h.healthy() {
				healthyCur = append(healthyCur, i)
			}
		default:
			if h.usable() {
				cands = append(cands, i)
			}
		}
	}
	reachable := len(healthyCur) + len(cands)
	if err != nil {
		if reachable < rmin {
			w.run.Probe("refused_not_enough_peers")
		} else if strings.Contains(err.Error(), "not enough peers to allocate") {
			// the request fails if fewer than min healthy holders can be reached - and
			// only then: here enough of them can
			v("refused_though_satisfiable", "the request was refused (%v) although %d healthy holders can be reached (healthy current %v, usable candidates %v, user-named %v), min is %d", err, reachable, healthyCur, cands, user, rmin)
		}
		if isPin && before != nil && !sameStrings(before, w.pinsetKey()) {
			v("failed_request_changed_pinset", "the request failed (%v) but the pinset changed", err)
		}
		return
	}
	res := w.idxs(allocs)
	seen := map[int]bool{}
	for _, a := range res {
		if a < 0 {
			v("unknown_peer", "allocation list contains a peer that is not a member")
			return
		}
		if seen[a] {
			v("duplicate_peer", "peer%d is listed twice in %v", a, res)
		}
		seen[a] = true
	}
	if reachable < rmin {
		v("succeeded_below_min", "only %d healthy holders are reachable (healthy current %v, usable candidates %v) but the request succeeded with %v", reachable, healthyCur, cands, res)
		return
	}
	// added peers: usable and not excluded
	var added []int
	for _, a := range res {
		if !isCur[a] {
			added = append(added, a)
			if !f.h[a].usable() {
				v("added_unhealthy_peer", "peer%d was added but its metric is %+v", a, f.h[a])
			}
			if isEx[a] {
				v("added_excluded_peer", "peer%d was added although it is excluded", a)
			}
		}
	}
	// healthy holders in the result
	nh := 0
	for _, a := range res {
		if f.h[a].healthy() && !isEx[a] {
			nh++
		}
	}
	if nh < rmin {
		v("fewer_than_min_healthy", "result %v has %d healthy holders, fewer than min (health %v)", res, nh, brief(f.h))
	}
	if nh > rmax {
		v("more_than_max_healthy", "result %v has %d healthy holders, more than max", res, nh)
	}
	// still-healthy current holders are kept, unless there are more than max
	if len(healthyCur) <= rmax {
		for _, c := range healthyCur {
			if !seen[c] {
				v("dropped_healthy_holder", "peer%d holds the pin and is healthy but was dropped (current %v -> %v)", c, cur, res)
			}
		}
	}
	// preference: user-asked candidates first, then the strategy's ranking (ties free)
	if len(added) > 0 {
		asc := w.plan.Knob("ascend", 0) == 1
		better := func(a, b uint64) bool { // a strictly better than b
			if asc {
				return a < b
			}
			return a > b
		}
		var prio, rest []int
		for _, c := range cands {
			if isUser[c] {
				prio = append(prio, c)
			} else {
				rest = append(rest, c)
			}
		}
		isAdded := map[int]bool{}
		for _, a := range added {
			isAdded[a] = true
		}
		var addedPrio, addedRest []int
		for _, a := range added {
			if isUser[a] {
				addedPrio = append(addedPrio, a)
			} else {
				addedRest = append(addedRest, a)
			}
		}
		if len(addedRest) > 0 && len(addedPrio) < len(prio) {
			v("priority_peer_skipped", "added %v although not every usable user-requested peer %v was taken", added, prio)
		}
		check := func(class string, pool, chosen []int) {
			for _, c := range chosen {
				for _, o := range pool {
					if !isAdded[o] && better(f.h[o].value, f.h[c].value) {
						v("worse_peer_preferred", "%s: peer%d (value %d) was chosen over peer%d (value %d) with strategy ascend=%v", class, c, f.h[c].value, o, f.h[o].value, asc)
						return
					}
				}
			}
		}
		check("priority", prio, addedPrio)
		check("candidates", rest, addedRest)
		w.run.Probe("preference_checked")
	}
}

func brief(hs []health) string {
	s := ""
	for i, h := range hs {
		c := "-"
		switch {
		case h.usable():
			c = "U"
		case h.healthy():
			c = "H"
		case h.present:
			c = "x"
		}
		s += fmt.Sprintf("%d:%s ", i, c)
	}
	return s
}
