package clustersim

import (
	"context"
	"fmt"
	"sort"
	"testing/synctest"
	"time"

	cid "github.com/ipfs/go-cid"
	"github.com/ipfs/ipfs-cluster/api"
	peer "github.com/libp2p/go-libp2p-core/peer"

	"verif/simkit"
)

func genC10(tier string, seed uint64) *simkit.Plan {
	r := simkit.NewRng(seed)
	p := &simkit.Plan{Property: "C10", Harness: "clustersim", Seed: seed, RTSeed: r.Uint64() % 1000}
	n := r.Range(1, 8)
	if r.Chance(0.5) {
		n = r.Range(3, 6)
	}
	p.SetKnob("peers", int64(n))
	p.SetKnob("ascend", int64(r.Intn(2)))
	p.SetKnob("commit_ms", int64(r.Pick(1, 2, 2)*r.Range(1, 40)))
	if r.Chance(0.12) {
		p.SetKnob("norepin", 1)
	}
	if r.Chance(0.1) {
		p.SetKnob("follower", 1)
	}
	// a collaborative cluster: one member is a follower that the others do not
	// trust (it is in the peerset and publishes metrics like everybody)
	if n >= 3 && r.Chance(0.2) {
		p.SetKnob("untrusted", int64(1+r.Intn(n)))
	}
	npins := r.Range(1, 12)
	p.SetKnob("ncids", int64(npins))
	// survivors' metric states
	states := []string{"ok", "ok", "ok", "ok", "ok", "absent", "invalid", "expired", "nonnumeric"}
	for i := 0; i < n; i++ {
		st := states[r.Intn(len(states))]
		if r.Chance(0.4) {
			st = "ok"
		}
		p.AddStep(Step{Op: "metric", Target: i, Name: st, Value: fmt.Sprintf("%d", r.Range(1, 5)*100)})
	}
	names := []string{"", "a", "b c", "ünï"}
	metaPool := []string{"a=1", "b=2", "k=v"}
	for c := 0; c < npins; c++ {
		st := Step{Op: "seed", Cid: c, Name: names[r.Intn(len(names))]}
		fp := factorPairs[1+r.Intn(len(factorPairs)-1)]
		st.RMin, st.RMax = fp[0], fp[1]
		if st.RMin > 0 {
			k := r.Range(st.RMin, st.RMax)
			if k > n {
				k = n
			}
			if k < 1 {
				k = 1
			}
			st.Allocs = r.Perm(n)[:k]
		}
		st.Direct = r.Chance(0.2)
		for _, m := range metaPool {
			if r.Chance(0.3) {
				st.Meta = append(st.Meta, m)
			}
		}
		st.Origins = r.Pick(4, 1, 1) // 0,1,2
		switch r.Pick(5, 3, 2) {
		case 1:
			st.ExpireS = r.Range(100, 1000)
		case 2:
			st.ExpireS = r.Range(3, 40)
		}
		if c > 0 && r.Chance(0.25) {
			st.From = 1 + r.Intn(c) // this entry was created by pin-update from an earlier one
		}
		// what a sharded add leaves in the pinset: shard entries (allocated, depth 1,
		// or 2 when their link DAG is indirect) and a cluster-DAG entry (everywhere)
		switch r.Pick(16, 3, 1) {
		case 1:
			st.Type, st.From, st.Direct = "shard", 0, false
			st.N = r.Pick(3, 1) + 1
		case 2:
			st.Type, st.From, st.Direct = "cdag", 0, false
			st.RMin, st.RMax, st.Allocs = -1, -1, nil
		}
		p.AddStep(st)
	}
	// the event(s)
	if n >= 2 && r.Chance(0.85) {
		ev := Step{Op: "fail", Target: r.Intn(n), DelayMs: r.Range(0, 2000)}
		if r.Chance(0.35) {
			ev.Via = "remove"
			ev.Peer = (ev.Target + 1 + r.Intn(n-1)) % n
		} else {
			ev.Via = "alert"
			ev.Order = r.Perm(n)
			ev.Overlap = r.Chance(0.7)
			ev.N = r.Pick(6, 2) // 1: the alert is delivered twice to some survivor
		}
		p.AddStep(ev)
		if ev.Via == "alert" && r.Chance(0.3) {
			// the same peer again: it comes back (fresh metrics), is given pins again,
			// and fails a second time - handled like the first time
			p.AddStep(Step{Op: "metric", Target: ev.Target, Name: "ok", Value: fmt.Sprintf("%d", r.Range(1, 5)*100), DelayMs: r.Range(1000, 5000)})
			for k, m := 0, r.Range(1, 3); k < m; k++ {
				c := r.Intn(npins)
				st := Step{Op: "seed", Cid: c, Name: "again"}
				fp := factorPairs[1+r.Intn(len(factorPairs)-1)]
				st.RMin, st.RMax = fp[0], fp[1]
				if st.RMin > 0 {
					kk := r.Range(st.RMin, st.RMax)
					if kk > n {
						kk = n
					}
					if kk < 1 {
						kk = 1
					}
					perm := r.Perm(n)
					st.Allocs = append([]int{ev.Target}, perm[:kk]...)[:kk]
				}
				p.AddStep(st)
			}
			ev2 := Step{Op: "fail", Target: ev.Target, DelayMs: r.Range(0, 2000), Via: "alert", Order: r.Perm(n), Overlap: r.Chance(0.7), N: r.Pick(6, 2)}
			p.AddStep(ev2)
			p.SetKnob("second_failure", 1)
		}
	}
	if r.Chance(0.45) {
		p.AddStep(Step{Op: "sync", DelayMs: r.Range(1, 60) * 1000, Order: r.Perm(n), Overlap: r.Chance(0.7)})
	}
	return p
}

type seeded struct {
	key    string // options (without allocations)
	allocs []int
	pin    *api.Pin
}

func execC10(plan *simkit.Plan, run *simkit.Run) {
	n := int(plan.Knob("peers", 3))
	alloc := "descend"
	if plan.Knob("ascend", 0) == 1 {
		alloc = "ascend"
	}
	follower := plan.Knob("follower", 0) == 1
	norepin := plan.Knob("norepin", 0) == 1
	untrusted := int(plan.Knob("untrusted", 0)) // index+1
	w := newWorld(run, plan, worldOpts{real: n, members: n, rmin: -1, rmax: -1, follower: follower, noRepin: norepin,
		allocator: alloc, ncids: int(plan.Knob("ncids", 3)), followerOne: untrusted})
	defer w.close()
	if untrusted > 0 {
		tr := map[peer.ID]bool{}
		for i, id := range w.allIDs {
			tr[id] = i != untrusted-1
		}
		w.sh.SetTrusted(tr)
		run.Probe("untrusted_follower_in_peerset")
	}
	w.sh.CommitLatency = time.Duration(plan.Knob("commit_ms", 0)) * time.Millisecond
	ctx := context.Background()
	failed := -1
	_ = failed
	removed := -1
	// baseline: every peer sees every member as healthy (the plan's metric
	// steps then degrade some); all peers share one view, as the statement assumes
	for i := 0; i < n; i++ {
		w.logMetric(-1, i, "100", true, 10000*time.Hour)
	}

	snapshot := func() map[string]seeded {
		out := map[string]seeded{}
		for _, p := range w.sh.List() {
			out[p.Cid.String()] = seeded{key: pinKey(w, p, false), allocs: sortedInts(w.idxs(p.Allocations)), pin: p}
		}
		return out
	}
	quiesce := func() {
		synctest.Wait()
		time.Sleep(2 * time.Second)
		synctest.Wait()
	}

	for _, raw := range plan.Steps {
		s := decode(raw)
		sleepMs(s.DelayMs)
		run.Step()
		switch s.Op {
		case "metric":
			t := s.Target % n
			switch s.Name {
			case "ok":
				w.logMetric(-1, t, s.Value, true, 10000*time.Hour)
			case "invalid":
				w.logMetric(-1, t, s.Value, false, 10000*time.Hour)
				run.Fault("survivor_invalid_metric")
			case "expired":
				w.logMetric(-1, t, s.Value, true, -time.Second)
				run.Fault("survivor_expired_metric")
			case "nonnumeric":
				w.logMetric(-1, t, "n/a", true, 10000*time.Hour)
				run.Fault("survivor_nonnumeric_metric")
			case "absent":
				// a peer always publishes its own informer metric into its own
				// monitor; make that one useless too so that every peer has the same view
				w.logMetric(-1, t, "0", false, 10000*time.Hour)
				run.Fault("survivor_no_metric")
			}
		case "seed":
			c := w.cids[s.Cid%len(w.cids)]
			pin := api.PinCid(c)
			pin.Name = s.Name
			pin.ReplicationFactorMin, pin.ReplicationFactorMax = s.RMin, s.RMax
			pin.Allocations = w.peersOf(s.Allocs)
			if s.Direct {
				pin.Mode, pin.MaxDepth = api.PinModeDirect, 0
			}
			pin.Metadata = metaMap(s.Meta)
			pin.Origins = originAddrs(s.Origins)
			if s.ExpireS != 0 {
				pin.ExpireAt = time.Unix(time.Now().Unix()+int64(s.ExpireS), 0)
			}
			if s.From > 0 {
				pin.PinUpdate = w.cids[(s.From-1)%len(w.cids)]
				run.Probe("update_pin_in_pinset")
			}
			switch s.Type {
			case "shard":
				ref := simkit.TestCid(60 + s.Cid)
				pin.Type, pin.Reference, pin.Mode = api.ShardType, &ref, api.PinModeRecursive
				pin.MaxDepth = api.PinDepth(1)
				if s.N == 2 {
					pin.MaxDepth = 2
					run.Probe("indirect_shard_in_pinset")
				}
				run.Probe("shard_in_pinset")
			case "cdag":
				ref := simkit.TestCid(61 + s.Cid)
				pin.Type, pin.Reference, pin.MaxDepth, pin.Mode = api.ClusterDAGType, &ref, 0, api.PinModeDirect
			}
			if err := w.sh.State().Add(ctx, pin); err != nil {
				panic(err)
			}
		case "fail":
			f := s.Target % n
			failed = f
			// the failed peer's own metrics are gone
			w.logMetric(-1, f, "0", true, -time.Second)
			before := snapshot()
			logStart := w.sh.LogLen()
			health := make([]health, n)
			for i := 0; i < n; i++ {
				health[i] = w.healthOf(w.nodes[(f+1)%n], i)
			}
			run.Op()
			if s.Via == "remove" {
				actor := w.nodes[s.Peer%n]
				// (a peer in follower mode refuses writes: a removal issued there
				// re-homes nothing by design; the removal is issued at an ordinary member)
				for k := 0; k < n && (actor.idx == f || actor.idx == untrusted-1); k++ {
					actor = w.nodes[(actor.idx+1)%n]
				}
				run.Fault("peer_removed")
				removed = f
				err := actor.cl.PeerRemove(ctx, w.allIDs[f])
				run.Ev("client", "peerremove", "peer%d removes peer%d err=%v", actor.idx, f, err)
			} else {
				run.Fault("peer_failed")
				for k, i := range s.Order {
					i = i % n
					if i == f {
						continue
					}
					reps := 1
					if s.N == 1 && k == 0 {
						reps = 2
					}
					for x := 0; x < reps; x++ {
						a := &api.Alert{Metric: api.Metric{Name: "ping", Peer: w.allIDs[f]}, TriggeredAt: time.Now()}
						if w.nodes[i].mon.Inject(a) {
							run.Probe("alert_delivered")
							run.Ev(fmt.Sprintf("mon%d", i), "alert", "ping peer%d", f)
						}
					}
					if !s.Overlap {
						quiesce()
					}
				}
			}
			quiesce()
			w.judgeFailure(f, before, logStart, health, follower, norepin, s.Via)
		case "sync":
			before := snapshot()
			logStart := w.sh.LogLen()
			now := time.Now()
			run.Op()
			run.Fault("state_sync")
			for _, i := range s.Order {
				i = i % n
				if i == removed { // no longer a member
					continue
				}
				nd := w.nodes[i]
				if s.Overlap {
					go nd.cl.StateSync(ctx)
				} else {
					nd.cl.StateSync(ctx)
					quiesce()
				}
			}
			quiesce()
			w.judgeExpiry(before, logStart, now, follower)
		}
	}
}

func (w *world) judgeFailure(f int, before map[string]seeded, logStart int, h []health, follower, norepin bool, via string) {
	ctx := context.Background()
	ops := w.sh.LogSince(logStart)
	keys := make([]string, 0, len(before))
	for k := range before {
		keys = append(keys, k)
	}
	sort.Strings(keys)
	for _, k := range keys {
		b := before[k]
		c, _ := cid.Decode(k)
		label := "cid" + fmt.Sprint(w.cidIdx(c))
		after, err := w.sh.State().Get(ctx, c)
		if err != nil {
			w.run.Violate("C10/pin_dropped", via, "%s was in the pinset before peer%d failed and is gone", label, f)
			continue
		}
		aAllocs := sortedInts(w.idxs(after.Allocations))
		same := pinKey(w, after, false) == b.key && fmt.Sprint(aAllocs) == fmt.Sprint(b.allocs)
		relogs := 0
		unpins := 0
		byFailed := false
		for _, o := range ops {
			if o.Pin != nil && o.Pin.Cid.Equals(c) && !o.Err {
				if o.Op == "pin" {
					relogs++
					if w.idxOf(o.By) == f {
						byFailed = true
					}
				}
				if o.Op == "unpin" {
					unpins++
				}
			}
		}
		if unpins > 0 {
			w.run.Violate("C10/pin_unpinned_by_repin", via, "%s was unpinned while handling the failure of peer%d", label, f)
		}
		holdsF := containsIdx(b.allocs, f)
		// an entry that expires around the time of the failure is refused by
		// pin() ("expiry in the past") and is about to be unpinned anyway
		if e := b.pin.ExpireAt; holdsF && !e.IsZero() && e.Unix() > 0 && e.Before(time.Now().Add(2*time.Second)) {
			w.run.Probe("expiring_entry_not_judged")
			continue
		}
		if !holdsF || follower || norepin {
			if !same {
				why := "it was not held by the failed peer"
				if follower {
					why = "the peers are followers"
				} else if norepin {
					why = "re-pinning is disabled"
				}
				w.run.Violate("C10/untouched_pin_changed", via, "%s changed although %s:\n before %s allocs=%v\n after  %s allocs=%v", label, why, b.key, b.allocs, pinKey(w, after, false), aAllocs)
			}
			w.run.Probe("untouched_not_affected")
			continue
		}
		var healthyHolders, cands []int
		for i := range h {
			if i == f {
				continue
			}
			if containsIdx(b.allocs, i) {
				if h[i].healthy() {
					healthyHolders = append(healthyHolders, i)
				}
			} else if h[i].usable() {
				cands = append(cands, i)
			}
		}
		rmin, rmax := b.pin.ReplicationFactorMin, b.pin.ReplicationFactorMax
		switch {
		case len(healthyHolders) >= rmin:
			w.run.Probe("untouched_meets_min")
			if !same {
				w.run.Violate("C10/pin_meeting_min_changed", via, "%s still has %d healthy holders (min %d) yet it changed:\n before %s allocs=%v\n after  %s allocs=%v", label, len(healthyHolders), rmin, b.key, b.allocs, pinKey(w, after, false), aAllocs)
			}
		case len(healthyHolders)+len(cands) >= rmin:
			w.run.Probe("rehomed")
			if pinKey(w, after, false) != b.key {
				w.run.Violate("C10/options_not_preserved", fmt.Sprintf("update_pin=%v", b.pin.PinUpdate.Defined()),
					"%s was re-pinned away from peer%d but its options changed:\n before %s\n after  %s", label, f, b.key, pinKey(w, after, false))
			}
			if containsIdx(aAllocs, f) {
				w.run.Violate("C10/still_on_failed_peer", fmt.Sprintf("update_pin=%v", b.pin.PinUpdate.Defined()),
					"%s had %d healthy holders (min %d) after peer%d failed, %d usable candidates existed, yet it is still allocated to the failed peer: %v -> %v", label, len(healthyHolders), rmin, f, len(cands), b.allocs, aAllocs)
				continue
			}
			nh := 0
			for _, a := range aAllocs {
				if a >= 0 && a < len(h) && h[a].healthy() {
					nh++
				}
				if !containsIdx(b.allocs, a) && (a < 0 || a >= len(h) || !h[a].usable()) {
					w.run.Violate("C10/rehomed_to_unhealthy_peer", via, "%s was re-allocated to peer%d, which has no usable metric", label, a)
				}
			}
			if nh < rmin || nh > rmax {
				w.run.Violate("C10/rehomed_outside_factors", via, "%s has %d healthy holders after re-pinning, outside [%d,%d]: %v", label, nh, rmin, rmax, aAllocs)
			}
			if relogs != 1 {
				w.run.Violate("C10/not_exactly_one_repin", fmt.Sprintf("relogs=%d", relogs), "%s was re-submitted %d times for one failure (exactly one survivor must act)", label, relogs)
			}
			if byFailed {
				w.run.Violate("C10/repinned_by_failed_peer", via, "%s was re-pinned by the failed peer itself", label)
			}
		default:
			w.run.Probe("cannot_be_rehomed")
			if !same {
				// it may only change towards a valid state; nothing may be lost
				if containsIdx(aAllocs, f) == false && len(aAllocs) < rmin {
					w.run.Violate("C10/left_below_min", via, "%s could not be re-homed (not enough healthy peers) and ended with fewer holders than before: %v -> %v", label, b.allocs, aAllocs)
				}
			}
		}
	}
}

func (w *world) cidIdx(c cid.Cid) int {
	for i, x := range w.cids {
		if x.Equals(c) {
			return i
		}
	}
	return -1
}

func (w *world) judgeExpiry(before map[string]seeded, logStart int, syncAt time.Time, follower bool) {
	ctx := context.Background()
	ops := w.sh.LogSince(logStart)
	keys := make([]string, 0, len(before))
	for k := range before {
		keys = append(keys, k)
	}
	sort.Strings(keys)
	for _, k := range keys {
		b := before[k]
		c, _ := cid.Decode(k)
		label := "cid" + fmt.Sprint(w.cidIdx(c))
		unpins := 0
		for _, o := range ops {
			if o.Op == "unpin" && o.Pin != nil && o.Pin.Cid.Equals(c) && !o.Err {
				unpins++
			}
		}
		_, err := w.sh.State().Get(ctx, c)
		present := err == nil
		exp := b.pin.ExpireAt
		hasExp := !exp.IsZero() && exp.Unix() > 0
		expired := hasExp && exp.Before(syncAt.Add(-time.Second))
		clearlyNot := !hasExp || exp.After(time.Now().Add(time.Second))
		switch {
		case expired && (b.pin.Type == api.ShardType || b.pin.Type == api.ClusterDAGType):
			// parts of a sharded add cannot be unpinned on their own: they go with their root
			w.run.Probe("expired_shard_part_not_judged")
		case expired && !follower:
			w.run.Probe("expired_unpinned")
			if unpins != 1 {
				w.run.Violate("C10/expired_not_unpinned_once", fmt.Sprintf("unpins=%d", unpins), "%s expired at %s; after StateSync on every peer it was unpinned %d times (exactly one peer must do it)", label, exp.UTC().Format(time.RFC3339), unpins)
			}
			if present && unpins >= 1 {
				w.run.Violate("C10/expired_still_present", "", "%s expired and was unpinned but is still in the pinset", label)
			}
		case clearlyNot:
			if unpins != 0 || !present {
				w.run.Violate("C10/unexpired_unpinned", "", "%s has not expired (expiry %v) yet StateSync unpinned it (%d unpins, present=%v)", label, exp, unpins, present)
			}
			w.run.Probe("unexpired_kept")
		}
	}
}
