package clustersim

import "verif/simkit"

func genC10(tier string, seed uint64) *simkit.Plan { panic("not yet") }
func execC10(plan *simkit.Plan, run *simkit.Run)  { panic("not yet") }
