package clustersim

import (
	"context"
	"fmt"
	"sort"
	"time"

	"github.com/ipfs/ipfs-cluster/api"
	peer "github.com/libp2p/go-libp2p-core/peer"

	"verif/simkit"
)

// C06, last clause: the cluster-wide view. Real Cluster peers (and members that
// are down: identities in the peerset with nobody behind them) answer
// Status(cid) / StatusAll() at an observer; each peer's tracker reports what the
// plan tells it to. Links to some peers are cut. A peer must appear at most
// once per CID: allocated peers with their own report, or cluster_error when
// they cannot be reached; every other member as remote; an item that is not in
// the pinset as unpinned everywhere.

var reportable = []api.TrackerStatus{api.TrackerStatusPinned, api.TrackerStatusPinning, api.TrackerStatusPinError, api.TrackerStatusPinQueued, api.TrackerStatusUnpinning, api.TrackerStatusUnexpectedlyUnpinned}

func genC06(tier string, seed uint64) *simkit.Plan {
	r := simkit.NewRng(seed)
	p := &simkit.Plan{Property: "C06", Harness: "clustersim", Seed: seed, RTSeed: r.Uint64() % 1000}
	real := r.Range(1, 4)
	virt := r.Intn(3)
	n := real + virt
	p.SetKnob("real", int64(real))
	p.SetKnob("members", int64(n))
	ncids := r.Range(1, 6)
	p.SetKnob("ncids", int64(ncids))
	for c := 0; c < ncids; c++ {
		if r.Chance(0.15) {
			continue // not in the pinset
		}
		st := Step{Op: "seed", Cid: c, Name: fmt.Sprintf("n%d", c)}
		switch r.Intn(4) {
		case 0:
			st.RMin, st.RMax = -1, -1
		default:
			k := r.Range(1, n)
			st.RMin, st.RMax = 1, k
			st.Allocs = r.Perm(n)[:k]
		}
		if r.Chance(0.15) {
			st.Type = "meta"
		}
		p.AddStep(st)
		// what every running peer's tracker says about it
		for i := 0; i < real; i++ {
			p.AddStep(Step{Op: "report", Peer: i, Cid: c, N: r.Intn(len(reportable))})
		}
	}
	for i, m := 0, r.Range(2, 12); i < m; i++ {
		switch r.Intn(7) {
		case 6:
			// a member leaves the peerset (removed, or - with CRDT - silent for longer
			// than its ping metric lives) while pins still name it in their allocations
			p.AddStep(Step{Op: "leave", Target: r.Intn(n)})
		case 0:
			p.AddStep(Step{Op: "cut", Peer: r.Intn(real), Target: r.Intn(real)})
		case 1:
			p.AddStep(Step{Op: "heal"})
		case 2:
			p.AddStep(Step{Op: "report", Peer: r.Intn(real), Cid: r.Intn(ncids), N: r.Intn(len(reportable))})
		case 3:
			p.AddStep(Step{Op: "statusall", Peer: r.Intn(real)})
		default:
			p.AddStep(Step{Op: "status", Peer: r.Intn(real), Cid: r.Intn(ncids)})
		}
	}
	p.AddStep(Step{Op: "statusall", Peer: r.Intn(real)})
	return p
}

func execC06(plan *simkit.Plan, run *simkit.Run) {
	real := int(plan.Knob("real", 2))
	n := int(plan.Knob("members", 2))
	w := newWorld(run, plan, worldOpts{real: real, members: n, rmin: -1, rmax: -1, ncids: int(plan.Knob("ncids", 3))})
	defer w.close()
	ctx := context.Background()
	type entry struct {
		allocs     map[int]bool
		everywhere bool
		meta       bool
	}
	pinset := map[int]*entry{}
	// what each running peer's tracker reports per cid
	reports := make([]map[int]api.TrackerStatus, real)
	for i := range reports {
		reports[i] = map[int]api.TrackerStatus{}
	}
	setReport := func(i, c int, st api.TrackerStatus) {
		reports[i][c] = st
		tr := w.nodes[i].tr
		tr.SetStatus(w.cids[c], st)
	}
	cut := map[[2]int]bool{}
	reach := func(a, b int) bool {
		if a == b {
			return true
		}
		if b >= real {
			return false
		}
		x, y := a, b
		if x > y {
			x, y = y, x
		}
		return !cut[[2]int{x, y}]
	}
	gone := map[int]bool{}
	for _, raw := range plan.Steps {
		s := decode(raw)
		run.Step()
		if (s.Op == "status" || s.Op == "statusall") && gone[s.Peer%real] {
			continue // the observer is no longer a member
		}
		switch s.Op {
		case "leave":
			m := s.Target % n
			left := 0
			for i := 0; i < n; i++ {
				if !gone[i] {
					left++
				}
			}
			if gone[m] || left <= 1 {
				continue
			}
			gone[m] = true
			var ps []peer.ID
			for i := 0; i < n; i++ {
				if !gone[i] {
					ps = append(ps, w.allIDs[i])
				}
			}
			w.sh.SetPeers(ps)
			run.Fault("member_left_peerset")
			run.Ev("cons", "leave", "p%d", m)
		case "seed":
			pin := api.PinCid(w.cids[s.Cid])
			pin.Name = s.Name
			pin.ReplicationFactorMin, pin.ReplicationFactorMax = s.RMin, s.RMax
			e := &entry{allocs: map[int]bool{}, everywhere: s.RMin < 0}
			if !e.everywhere {
				pin.Allocations = w.peersOf(s.Allocs)
				for _, a := range s.Allocs {
					e.allocs[a] = true
				}
			}
			if s.Type == "meta" {
				pin.Type = api.MetaType
				ref := simkit.TestCid(50 + s.Cid)
				pin.Reference = &ref
				e.meta = true
			}
			if err := w.sh.State().Add(ctx, pin); err != nil {
				panic(err)
			}
			pinset[s.Cid] = e
			// peers that hold no allocation say "remote", as the real tracker does
			for i := 0; i < real; i++ {
				if !e.everywhere && !e.allocs[i] {
					setReport(i, s.Cid, api.TrackerStatusRemote)
				}
			}
		case "report":
			if s.Peer >= real || s.Cid >= len(w.cids) {
				continue
			}
			e := pinset[s.Cid]
			if e == nil {
				continue
			}
			if !e.everywhere && !e.allocs[s.Peer] {
				continue
			}
			setReport(s.Peer, s.Cid, reportable[s.N%len(reportable)])
		case "cut":
			a, b := s.Peer%real, s.Target%real
			if a == b {
				continue
			}
			w.net.Cut(a, b)
			if a > b {
				a, b = b, a
			}
			cut[[2]int{a, b}] = true
			run.Fault("partition")
		case "heal":
			if len(cut) == 0 {
				continue
			}
			w.net.Heal()
			cut = map[[2]int]bool{}
			sleepMs(2000)
		case "status":
			obs := s.Peer % real
			run.Op()
			g, err := w.nodes[obs].cl.Status(ctx, w.cids[s.Cid])
			if err != nil {
				run.Violate("C06/global_view_wrong", "error", "Status(cid%d) at p%d failed: %v", s.Cid, obs, err)
				continue
			}
			run.Probe("global_status_checked")
			e := pinset[s.Cid]
			want := map[int]api.TrackerStatus{}
			for m := 0; m < n; m++ {
				if gone[m] && (e == nil || e.everywhere || !e.allocs[m]) {
					continue // not a member and not named by the pin: it does not appear
				}
				if gone[m] {
					run.Probe("allocated_peer_left_peerset")
				}
				switch {
				case e == nil:
					want[m] = api.TrackerStatusUnpinned
				case e.everywhere || e.allocs[m]:
					if reach(obs, m) {
						want[m] = reports[m][s.Cid]
					} else {
						want[m] = api.TrackerStatusClusterError
						run.Probe("unreachable_allocated_peer")
					}
				default:
					want[m] = api.TrackerStatusRemote
				}
			}
			judgeGlobal(w, run, fmt.Sprintf("Status(cid%d) at p%d", s.Cid, obs), g, want)
		case "statusall":
			obs := s.Peer % real
			run.Op()
			l, err := w.nodes[obs].cl.StatusAll(ctx, api.TrackerStatusUndefined)
			if err != nil {
				run.Violate("C06/global_view_wrong", "error", "StatusAll at p%d failed: %v", obs, err)
				continue
			}
			run.Probe("global_listing_checked")
			seen := map[string]bool{}
			for _, g := range l {
				if seen[g.Cid.String()] {
					run.Violate("C06/global_view_wrong", "dup-cid", "StatusAll at p%d lists %s twice", obs, g.Cid)
				}
				seen[g.Cid.String()] = true
				ci := -1
				for i, c := range w.cids {
					if c.Equals(g.Cid) {
						ci = i
					}
				}
				if ci < 0 || pinset[ci] == nil {
					run.Violate("C06/global_view_wrong", "extra-cid", "StatusAll at p%d lists %s, which is not in the pinset", obs, g.Cid)
					continue
				}
				// every member appears: its own report when it can be reached (the
				// trackers list every pin, remote ones as remote), cluster_error otherwise
				want := map[int]api.TrackerStatus{}
				for m := 0; m < n; m++ {
					if gone[m] {
						continue // the listing is built from the members' own listings
					}
					if reach(obs, m) {
						want[m] = reports[m][ci]
					} else {
						want[m] = api.TrackerStatusClusterError
					}
				}
				judgeGlobal(w, run, fmt.Sprintf("StatusAll at p%d, cid%d", obs, ci), g, want)
			}
			// and every pin that some reachable peer lists is there
			for ci, e := range pinset {
				_ = e
				if !seen[w.cids[ci].String()] {
					run.Violate("C06/global_view_wrong", "missing-cid", "StatusAll at p%d does not list cid%d, which is in the pinset and reported by p%d", obs, ci, obs)
				}
			}
		}
	}
}

func judgeGlobal(w *world, run *simkit.Run, what string, g *api.GlobalPinInfo, want map[int]api.TrackerStatus) {
	got := map[int]api.TrackerStatus{}
	for k, v := range g.PeerMap {
		idx := -1
		for i, id := range w.allIDs {
			if id.String() == k || id.Pretty() == k {
				idx = i
			}
		}
		if idx < 0 {
			run.Violate("C06/global_view_wrong", "stranger", "%s: the peer map names %s, which is not a member", what, k)
			continue
		}
		if _, dup := got[idx]; dup {
			run.Violate("C06/global_view_wrong", "dup-peer", "%s: p%d appears twice", what, idx)
		}
		got[idx] = v.Status
	}
	var ks []int
	for m := range want {
		ks = append(ks, m)
	}
	sort.Ints(ks)
	for _, m := range ks {
		g, ok := got[m]
		if !ok {
			run.Violate("C06/global_view_wrong", "missing-peer:"+want[m].String(), "%s: member p%d does not appear (expected %s); peer map %v", what, m, want[m], got)
			continue
		}
		if g != want[m] {
			run.Violate("C06/global_view_wrong", want[m].String()+"->"+g.String(), "%s: p%d is shown as %s, expected %s; peer map %v", what, m, g, want[m], got)
		}
	}
	for m := range got {
		if _, ok := want[m]; !ok {
			run.Violate("C06/global_view_wrong", "extra-peer", "%s: p%d appears but is not a member", what, m)
		}
	}
	_ = time.Now
}
