package clustersim

import (
	"fmt"
	"time"

	"verif/simkit"
)

// C09, publish cadence: a running peer republishes each informer metric and
// the ping before the previous one expires; after a failed publish the
// informer loop retries sooner and never stops.

func genC09(tier string, seed uint64) *simkit.Plan {
	r := simkit.NewRng(seed)
	p := &simkit.Plan{Property: "C09", Harness: "clustersim", Scenario: "cadence", Seed: seed, RTSeed: r.Uint64() % 1000}
	ttls := []int{400, 1000, 3000, 10000, 30000}
	p.SetKnob("disk_ttl_ms", int64(ttls[r.Intn(len(ttls))]))
	p.SetKnob("numpin_ttl_ms", int64(ttls[r.Intn(len(ttls))]))
	p.SetKnob("ping_ms", int64([]int{200, 1000, 5000, 15000}[r.Intn(4)]))
	// a slow daemon: `repo stat` / `pin ls` take a share of the metric's TTL (per
	// cent; below one half, beyond which no cadence can keep the metric alive)
	p.SetKnob("stat_pct", int64([]int{0, 0, 10, 34, 45}[r.Intn(5)]))
	p.SetKnob("ls_pct", int64([]int{0, 0, 10, 34, 45}[r.Intn(5)]))
	n := r.Range(3, 25)
	for i := 0; i < n; i++ {
		st := Step{DelayMs: r.Pick(3, 3, 2) * r.Range(50, 6000)}
		switch r.Pick(5, 4, 2, 2) {
		case 0:
			st.Op = "advance"
		case 1:
			st.Op = "failpub"
			st.N = r.Pick(4, 4, 2, 1) + 1 // 1..4 consecutive failures
		case 2:
			st.Op = "ipfsdown"
		case 3:
			st.Op = "ipfsup"
		}
		p.AddStep(st)
	}
	return p
}

func execC09(plan *simkit.Plan, run *simkit.Run) {
	diskTTL := time.Duration(plan.Knob("disk_ttl_ms", 3000)) * time.Millisecond
	numpinTTL := time.Duration(plan.Knob("numpin_ttl_ms", 3000)) * time.Millisecond
	ping := time.Duration(plan.Knob("ping_ms", 1000)) * time.Millisecond
	w := newWorld(run, plan, worldOpts{real: 1, members: 1, rmin: -1, rmax: -1, ncids: 1, pingMs: int(ping / time.Millisecond),
		realInformers: true, diskTTL: diskTTL, numpinTTL: numpinTTL})
	defer w.close()
	n0 := w.nodes[0]
	n0.ipfs.StatDelay = diskTTL * time.Duration(plan.Knob("stat_pct", 0)) / 100
	n0.ipfs.LsDelay = numpinTTL * time.Duration(plan.Knob("ls_pct", 0)) / 100
	if n0.ipfs.StatDelay > 0 || n0.ipfs.LsDelay > 0 {
		run.Fault("slow_daemon_reads")
	}
	down := false
	for _, raw := range plan.Steps {
		s := decode(raw)
		sleepMs(s.DelayMs)
		run.Step()
		switch s.Op {
		case "failpub":
			n0.mon.SetFailPub(s.N)
			run.Fault("publish_errors")
			run.Ev("sim", "failpub", "next %d publishes fail", s.N)
		case "ipfsdown":
			n0.ipfsM.SetDown(true)
			down = true
			run.Fault("ipfs_down")
		case "ipfsup":
			n0.ipfsM.SetDown(false)
			down = false
		}
		run.Op()
	}
	_ = down
	n0.mon.SetFailPub(0)
	n0.ipfsM.SetDown(false)
	// long enough for every loop to show whether it is still alive
	maxTTL := diskTTL
	if numpinTTL > maxTTL {
		maxTTL = numpinTTL
	}
	time.Sleep(2*maxTTL + 2*ping + time.Second)
	end := time.Now()

	pubs := n0.mon.PublishedCopy()
	ttlOf := map[string]time.Duration{"ping": 2 * ping, "freespace": diskTTL, "numpin": numpinTTL}
	const slack = 50 * time.Millisecond
	// what reading the value from the daemon takes: every attempt is that much
	// later than the loop's timer
	readOf := map[string]time.Duration{"ping": 0, "freespace": n0.ipfs.StatDelay, "numpin": n0.ipfs.LsDelay}
	for _, name := range []string{"freespace", "numpin", "ping"} {
		ttl := ttlOf[name]
		read := readOf[name]
		var prev *simkit.PublishedMetric
		attempts := 0
		for i := range pubs {
			pm := &pubs[i]
			if pm.Name != name {
				continue
			}
			attempts++
			if prev != nil {
				gap := pm.At.Sub(prev.At)
				switch {
				case prev.Err && name != "ping":
					// retry sooner after an error: TTL/4
					if gap > ttl/4+read+slack {
						run.Violate("C09/retry_too_late", name, "%s: publish failed at %s; the next attempt came %s later, more than TTL/4 = %s plus the %s the daemon takes to answer", name, w.ts(prev.At), gap, ttl/4, read)
					}
					run.Probe("retries_checked")
				case !prev.Err && prev.Valid:
					// a healthy peer never looks failed: republish before the previous one expires
					exp := time.Unix(0, prev.Expire)
					if !pm.At.Before(exp) && !(name == "ping" && false) {
						run.Violate("C09/republished_after_expiry", name, "%s: published at %s with expiry %s, but the next publish attempt only came at %s", name, w.ts(prev.At), w.ts(exp), w.ts(pm.At))
					}
					run.Probe("cadence_checked")
				}
			}
			prev = pm
		}
		if attempts == 0 {
			run.Violate("C09/never_published", name, "%s was never published by a running peer", name)
			continue
		}
		// the loop is still alive at the end: the last attempt is recent
		idle := end.Sub(prev.At)
		limit := ttl/2 + read + slack
		if name == "ping" {
			limit = ping + slack
		}
		if prev.Err && name != "ping" {
			limit = ttl/4 + read + slack
		}
		if idle > limit {
			run.Violate("C09/publish_loop_stopped", name, "%s: the last publish attempt was at %s (failed=%v); %s later the running peer has not tried again (TTL %s)", name, w.ts(prev.At), prev.Err, idle, ttl)
		}
	}
	run.Ev("oracle", "cadence", "%d publish attempts judged", len(pubs))
}

func (w *world) ts(t time.Time) string {
	return fmt.Sprintf("%dms", t.Sub(time.Date(2000, 1, 1, 0, 0, 0, 0, time.UTC))/time.Millisecond)
}
