package clustersim

import (
	"context"
	"fmt"
	"sort"
	"strings"
	"time"

	cid "github.com/ipfs/go-cid"
	cbor "github.com/ipfs/go-ipld-cbor"
	"github.com/ipfs/ipfs-cluster/api"
	ma "github.com/multiformats/go-multiaddr"
	mh "github.com/multiformats/go-multihash"

	"verif/simkit"
)

func genC04(tier string, seed uint64) *simkit.Plan {
	r := simkit.NewRng(seed)
	p := &simkit.Plan{Property: "C04", Harness: "clustersim", Seed: seed, RTSeed: r.Uint64() % 1000}
	members := r.Range(1, 5)
	ncids := r.Range(2, 5)
	p.SetKnob("members", int64(members))
	p.SetKnob("ncids", int64(ncids))
	def := factorPairs[1+r.Intn(len(factorPairs)-1)]
	p.SetKnob("def_rmin", int64(def[0]))
	p.SetKnob("def_rmax", int64(def[1]))
	follower := r.Chance(0.12)
	if follower {
		p.SetKnob("follower", 1)
	}
	n := r.Range(5, 40)
	if tier == "thorough" && r.Chance(0.3) {
		n = r.Range(30, 120)
	}
	names := []string{"", "a", "b", "name with space", "ünï"}
	metaPool := []string{"a=1", "a=2", "b=1", "c=x", "long key=v"}
	bad := [][2]int{{2, 1}, {-2, 1}, {-1, 2}, {3, -1}, {1, -3}}
	if r.Chance(0.4) {
		p.AddStep(Step{Op: "seedshard", Cid: r.Intn(ncids)})
	}
	if follower {
		// follower mode refuses everything; give it something to (not) destroy
		for i := 0; i < r.Range(1, 3); i++ {
			p.AddStep(Step{Op: "seed", Cid: r.Intn(ncids), RMin: -1, RMax: -1, Name: "seeded"})
		}
	}
	for i := 0; i < n; i++ {
		st := Step{DelayMs: r.Pick(6, 3, 1) * r.Range(0, 1500)}
		switch r.Pick(55, 20, 8, 10, 4, 3) {
		case 0, 5:
			st.Op = "pin"
			st.Cid = r.Intn(ncids)
			fp := factorPairs[r.Intn(len(factorPairs))]
			st.RMin, st.RMax = fp[0], fp[1]
			if r.Chance(0.08) {
				b := bad[r.Intn(len(bad))]
				st.RMin, st.RMax = b[0], b[1]
			}
			if r.Chance(0.15) {
				// only one factor given: the other comes from the configuration, and
				// the pair that results is what has to be valid
				if r.Bool() {
					st.RMin = 0
				} else {
					st.RMax = 0
				}
			}
			st.Name = names[r.Intn(len(names))]
			if r.Chance(0.3) {
				st.Via = "rpc"
				// the sharding adder sends meta entries through this endpoint
				st.AsMeta = r.Chance(0.3)
			}
			st.Direct = r.Chance(0.3)
			switch r.Pick(6, 2, 1) {
			case 1:
				st.ExpireS = r.Range(1, 120)
			case 2:
				st.ExpireS = -r.Range(1, 60)
			}
			for _, m := range metaPool {
				if r.Chance(0.25) {
					dup := false
					for _, e := range st.Meta {
						if e[0] == m[0] && e[:2] == m[:2] {
							dup = true
						}
					}
					if !dup {
						st.Meta = append(st.Meta, m)
					}
				}
			}
			if r.Chance(0.2) {
				st.User = r.Perm(members)[:r.Range(1, min(2, members))]
			}
			if r.Chance(0.3) {
				st.OriginIx = r.Perm(5)[:r.Range(1, 3)] // any subset in any order: origins get added, dropped, replaced, reordered
			}
			if r.Chance(0.12) {
				st.From = 1 + r.Intn(ncids) // update source
			}
			st.Path = r.Chance(0.15)
		case 1:
			st.Op = "unpin"
			st.Cid = r.Intn(ncids)
			st.Path = r.Chance(0.2)
			if r.Chance(0.3) {
				st.Via = "rpc"
			}
		case 2:
			st.Op = "pinupdate"
			st.Cid = r.Intn(ncids)
			st.From = 1 + r.Intn(ncids)
			st.Name = names[r.Intn(len(names))]
			if r.Chance(0.3) {
				st.ExpireS = r.Range(-30, 90)
			}
		case 3:
			// re-pin something with exactly the options it has, or with one
			// metadata key removed / added: resolved against the model at run time
			st.Op = "repin"
			st.Cid = r.Intn(ncids)
			st.N = r.Intn(7) // 0 identical, 1 drop a metadata key, 2 add a key, 3 change a value, 4 replace the last origin, 5 reverse the origins (same set), 6 drop the first origin
		case 4:
			st.Op = "unpin"
			st.Cid = 50 + r.Intn(4) // shard / cluster-DAG entries and unknown CIDs
		}
		p.AddStep(st)
	}
	return p
}

// shardCids returns the fixed CIDs of the sharded triple hanging off meta cid i.
func shardCids(w *world, i int) (cdag cid.Cid, shards []cid.Cid) {
	return simkit.TestCid(200 + 4*i), []cid.Cid{simkit.TestCid(200 + 4*i + 2), simkit.TestCid(200 + 4*i + 4)}
}

type pinModel struct {
	w    *world
	pins map[string]*api.Pin
}

func (m *pinModel) get(c cid.Cid) *api.Pin { return m.pins[c.String()] }
func (m *pinModel) keys() []string {
	var out []string
	for _, p := range m.pins {
		out = append(out, pinKey(m.w, p, false))
	}
	sort.Strings(out)
	return out
}

func validFactors(rmin, rmax int) bool {
	if rmin == 0 || rmax == 0 || rmin > rmax || rmin < -1 || rmax < -1 {
		return false
	}
	if (rmin == -1) != (rmax == -1) {
		return false
	}
	return true
}

func execC04(plan *simkit.Plan, run *simkit.Run) {
	members := int(plan.Knob("members", 3))
	follower := plan.Knob("follower", 0) == 1
	w := newWorld(run, plan, worldOpts{real: 1, members: members, rmin: int(plan.Knob("def_rmin", -1)), rmax: int(plan.Knob("def_rmax", -1)),
		follower: follower, ncids: int(plan.Knob("ncids", 3))})
	defer w.close()
	run.NoFaultDimension = true // C04 quantifies over histories, inputs and configurations
	n0 := w.nodes[0]
	ctx := context.Background()
	for m := 0; m < members; m++ {
		w.logMetric(-1, m, fmt.Sprintf("%d", 100+m), true, 10000*time.Hour)
	}
	model := &pinModel{w: w, pins: map[string]*api.Pin{}}
	shardDag = cid.Undef
	for i, c := range w.cids {
		if i%2 == 0 {
			n0.ipfs.Paths["/ipfs/"+c.String()] = c
		}
	}
	// the model's view of the real pinset, for comparison
	realKeys := func() []string {
		var out []string
		for _, p := range w.sh.List() {
			out = append(out, pinKey(w, p, false))
		}
		sort.Strings(out)
		return out
	}
	allocsOf := func(c cid.Cid) []int {
		p, err := w.sh.State().Get(ctx, c)
		if err != nil {
			return nil
		}
		return sortedInts(w.idxs(p.Allocations))
	}

	for _, raw := range plan.Steps {
		s := decode(raw)
		sleepMs(s.DelayMs)
		run.Step()
		var target cid.Cid
		if s.Cid >= 50 {
			// 50,51: cluster-DAG / shard of meta cid 0; 52,53: unknown CIDs
			cd, sh := shardCids(w, 0)
			target = []cid.Cid{cd, sh[0], simkit.TestCid(300), simkit.TestCid(301)}[s.Cid-50]
		} else {
			target = w.cids[s.Cid%len(w.cids)]
		}
		label := fmt.Sprintf("cid%d", s.Cid)
		switch s.Op {
		case "seed":
			pin := api.PinCid(target)
			pin.Name = s.Name
			pin.ReplicationFactorMin, pin.ReplicationFactorMax = s.RMin, s.RMax
			w.sh.State().Add(ctx, pin)
			for _, p := range w.sh.List() {
				model.pins[p.Cid.String()] = p
			}
			continue
		case "seedshard":
			if model.get(target) != nil {
				continue
			}
			cd, shards := shardCids(w, 0)
			links := map[string]cid.Cid{}
			for i, sc := range shards {
				links[fmt.Sprintf("%d", i)] = sc
				sp := api.PinCid(sc)
				sp.Type = api.ShardType
				sp.MaxDepth = 1
				sp.ReplicationFactorMin, sp.ReplicationFactorMax = 1, 1
				sp.Allocations = w.peersOf([]int{0})
				sp.Reference = nil
				w.sh.State().Add(ctx, sp)
				c2 := *sp
				model.pins[sc.String()] = &c2
			}
			nd, err := cbor.WrapObject(links, mh.SHA2_256, -1)
			if err != nil {
				panic(err)
			}
			cd = nd.Cid()
			n0.ipfs.BlockPut(ctx, &api.NodeWithMeta{Cid: cd, Data: nd.RawData()})
			cp := api.PinCid(cd)
			cp.Type = api.ClusterDAGType
			cp.MaxDepth = 0
			cp.ReplicationFactorMin, cp.ReplicationFactorMax = -1, -1
			tc := target
			cp.Reference = &tc
			w.sh.State().Add(ctx, cp)
			c3 := *cp
			model.pins[cd.String()] = &c3
			mp := api.PinCid(target)
			mp.Type = api.MetaType
			mp.ReplicationFactorMin, mp.ReplicationFactorMax = -1, -1
			mp.Reference = &cd
			w.sh.State().Add(ctx, mp)
			c4 := *mp
			model.pins[target.String()] = &c4
			shardDag = cd
			for _, p := range w.sh.List() { // the model holds the stored form
				model.pins[p.Cid.String()] = p
			}
			run.Probe("sharded_triple_seeded")
			continue
		}
		if s.Cid == 50 && shardDag.Defined() {
			target = shardDag
		}

		before := realKeys()
		beforeAllocs := map[string][]int{}
		for _, p := range w.sh.List() {
			beforeAllocs[p.Cid.String()] = sortedInts(w.idxs(p.Allocations))
		}
		run.Op()
		now := time.Now()

		// ---- build the request
		opts := api.PinOptions{ReplicationFactorMin: s.RMin, ReplicationFactorMax: s.RMax, Name: s.Name}
		if s.Direct {
			opts.Mode = api.PinModeDirect
		}
		if s.ExpireS != 0 {
			opts.ExpireAt = time.Unix(now.Unix()+int64(s.ExpireS), 0)
		}
		opts.Metadata = metaMap(s.Meta)
		opts.UserAllocations = w.peersOf(s.User)
		opts.Origins = originAddrs(s.Origins)
		if len(s.OriginIx) > 0 {
			opts.Origins = originList(s.OriginIx)
		}
		var from cid.Cid
		if s.From > 0 {
			from = w.cids[(s.From-1)%len(w.cids)]
			if from.Equals(target) {
				if s.Op == "pinupdate" {
					continue
				}
				from = cid.Undef
			}
		}
		if s.Op == "repin" {
			ex := model.get(target)
			if ex == nil || ex.Type != api.DataType {
				continue
			}
			opts = ex.PinOptions
			opts.UserAllocations = nil
			opts.PinUpdate = cid.Undef
			md := map[string]string{}
			for k, v := range ex.Metadata {
				md[k] = v
			}
			ks := make([]string, 0, len(md))
			for k := range md {
				ks = append(ks, k)
			}
			sort.Strings(ks)
			switch s.N {
			case 1:
				if len(ks) > 0 {
					delete(md, ks[0])
					run.Probe("metadata_key_removed")
				}
			case 2:
				md["added"] = "1"
			case 3:
				if len(ks) > 0 {
					md[ks[0]] = md[ks[0]] + "x"
				}
			}
			if len(md) == 0 {
				md = nil
			}
			opts.Metadata = md
			if n := len(ex.Origins); n > 0 {
				og := append([]ma.Multiaddr{}, ex.Origins...)
				switch s.N {
				case 4:
					og[n-1] = originList([]int{9})[0]
					run.Probe("origin_replaced")
				case 5:
					for a, b := 0, n-1; a < b; a, b = a+1, b-1 {
						og[a], og[b] = og[b], og[a]
					}
				case 6:
					og = og[1:]
				}
				opts.Origins = og
			}
			if !opts.ExpireAt.IsZero() && opts.ExpireAt.Before(now) {
				opts.ExpireAt = time.Time{}
			}
			s.Op = "pin"
			from = cid.Undef
			s.Path = false
			label += " (repin variant)"
		}

		// ---- what the statement dictates
		type expectation struct {
			refuse bool
			why    string
			pin    *api.Pin // expected entry (allocations judged separately)
			keep   bool     // allocations must stay as they were
			copyOf *api.Pin // allocations must equal this pin's (update)
			remove []cid.Cid
		}
		var exp expectation
		ex := model.get(target)
		path := "/ipfs/" + target.String()
		_, pathKnown := n0.ipfs.Paths[path]
		switch {
		case follower:
			exp = expectation{refuse: true, why: "follower mode"}
		case s.Path && !pathKnown && (s.Op == "pin" || s.Op == "unpin"):
			exp = expectation{refuse: true, why: "path does not resolve"}
		case s.Op == "pin" && from.Defined() && !from.Equals(target),
			s.Op == "pinupdate":
			if s.Op == "pinupdate" && !from.Defined() {
				continue
			}
			if from.Equals(target) {
				continue
			}
			src := model.get(from)
			switch {
			case src == nil:
				exp = expectation{refuse: true, why: "update source is not pinned"}
			case src.Type != api.DataType:
				exp = expectation{refuse: true, why: "update source is not a data pin"}
			case ex != nil && ex.Type != api.DataType:
				continue // updating onto a sharded entry: not determined by the statement
			default:
				np := *src
				np.Cid = target
				np.PinUpdate = from
				if opts.Name != "" {
					np.Name = opts.Name
				}
				if !opts.ExpireAt.IsZero() && opts.ExpireAt.After(now) {
					np.ExpireAt = opts.ExpireAt
				}
				exp = expectation{pin: &np, copyOf: src}
			}
		case s.Op == "pin":
			req := api.PinWithOpts(target, opts)
			asMeta := false
			if s.AsMeta && s.Via == "rpc" && !s.Path && !from.Defined() {
				// only where the statement decides the outcome: a meta request for a CID
				// that is pinned as something else, or with an expiry in the past, is
				// refused (a meta request that would succeed is sent as a plain one)
				if (ex != nil && ex.Type != api.MetaType) || (!opts.ExpireAt.IsZero() && opts.ExpireAt.Before(now)) {
					asMeta = true
				}
			}
			if req.ReplicationFactorMin == 0 {
				req.ReplicationFactorMin = n0.cfg.ReplicationFactorMin
			}
			if req.ReplicationFactorMax == 0 {
				req.ReplicationFactorMax = n0.cfg.ReplicationFactorMax
			}
			switch {
			case !validFactors(req.ReplicationFactorMin, req.ReplicationFactorMax):
				exp = expectation{refuse: true, why: "invalid replication factors"}
			case !opts.ExpireAt.IsZero() && opts.ExpireAt.Before(now):
				exp = expectation{refuse: true, why: "expiry in the past"}
			case asMeta && ex != nil:
				exp = expectation{refuse: true, why: "different pin type (meta over " + ex.Type.String() + ")"}
				run.Probe("meta_request_over_other_type")
			case ex != nil && ex.Type != api.DataType:
				exp = expectation{refuse: true, why: "different pin type"}
			case ex != nil && ex.Mode == api.PinModeRecursive && req.Mode != api.PinModeRecursive:
				exp = expectation{refuse: true, why: "recursive downgraded to direct"}
			default:
				identical := ex != nil && len(s.User) == 0 && optsKey(&req.PinOptions) == optsKey(&ex.PinOptions)
				if !identical && req.ReplicationFactorMin > 0 && members < req.ReplicationFactorMin {
					exp = expectation{refuse: true, why: "fewer than min peers exist"}
				} else {
					req.PinUpdate = cid.Undef
					exp = expectation{pin: req, keep: identical}
					if identical {
						// the entry stays exactly as it is
						cp := *ex
						exp.pin = &cp
						run.Probe("identical_repin")
					}
				}
			}
		case s.Op == "unpin":
			switch {
			case ex == nil:
				exp = expectation{refuse: true, why: "not pinned"}
			case ex.Type == api.ShardType || ex.Type == api.ClusterDAGType:
				exp = expectation{refuse: true, why: "shard / cluster-DAG entries cannot be unpinned directly"}
			case ex.Type == api.MetaType:
				rm := []cid.Cid{target}
				if ex.Reference != nil {
					rm = append(rm, *ex.Reference)
					_, shards := shardCids(w, 0)
					rm = append(rm, shards...)
				}
				exp = expectation{remove: rm}
				run.Probe("meta_unpinned")
			default:
				exp = expectation{remove: []cid.Cid{target}}
			}
		default:
			continue
		}

		// ---- perform the call
		var err error
		var ret *api.Pin
		switch {
		case s.Op == "pinupdate":
			ret, err = n0.cl.PinUpdate(ctx, from, target, opts)
			label = fmt.Sprintf("PinUpdate(cid%d -> %s)", s.From-1, label)
		case s.Op == "pin":
			if from.Defined() {
				opts.PinUpdate = from
			}
			if s.Path {
				p := path
				if !pathKnown {
					p = "/ipfs/unknown"
				}
				ret, err = n0.cl.PinPath(ctx, p, opts)
				label = "PinPath(" + label + ")"
			} else if s.Via == "rpc" {
				// the way the REST API and the IPFS proxy reach the peer: its own
				// Cluster.Pin RPC endpoint
				var out api.Pin
				rq := api.PinWithOpts(target, opts)
				if s.AsMeta && exp.refuse && strings.HasPrefix(exp.why, "different pin type (meta") || (s.AsMeta && exp.refuse && exp.why == "expiry in the past") {
					ref := simkit.TestCid(70 + s.Cid)
					rq.Type, rq.Reference, rq.MaxDepth = api.MetaType, &ref, 0
					label = "meta " + label
					run.Probe("meta_requests_through_rpc_endpoint")
				}
				err = n0.tr.Client.CallContext(ctx, "", "Cluster", "Pin", rq, &out)
				ret = &out
				label = "RPC Cluster.Pin(" + label + ")"
				run.Probe("pins_through_rpc_endpoint")
			} else {
				ret, err = n0.cl.Pin(ctx, target, opts)
				label = "Pin(" + label + ")"
			}
		case s.Op == "unpin":
			if s.Path {
				p := path
				if !pathKnown {
					p = "/ipfs/unknown"
				}
				ret, err = n0.cl.UnpinPath(ctx, p)
				label = "UnpinPath(" + label + ")"
			} else if s.Via == "rpc" {
				var out api.Pin
				err = n0.tr.Client.CallContext(ctx, "", "Cluster", "Unpin", api.PinCid(target), &out)
				ret = &out
				label = "RPC Cluster.Unpin(" + label + ")"
			} else {
				ret, err = n0.cl.Unpin(ctx, target)
				label = "Unpin(" + label + ")"
			}
		}
		_ = ret
		run.Ev("client", "call", "%s opts{%s} user=%v -> err=%v (statement: refuse=%v %s)", label, optsKey(&opts), s.User, err, exp.refuse, exp.why)

		// ---- judge
		after := realKeys()
		if exp.refuse {
			run.Probe("refusals")
			if err == nil {
				run.Violate("C04/refusal_not_refused", exp.why, "%s must be refused (%s) but returned nil", label, exp.why)
			}
			if !sameStrings(before, after) {
				run.Violate("C04/refused_request_changed_pinset", exp.why, "%s is a refused request (%s) yet the pinset changed:\n before %v\n after  %v", label, exp.why, before, after)
			} else {
				for _, p := range w.sh.List() {
					if fmt.Sprint(beforeAllocs[p.Cid.String()]) != fmt.Sprint(sortedInts(w.idxs(p.Allocations))) {
						run.Violate("C04/refused_request_changed_pinset", exp.why, "%s is a refused request (%s) yet the allocations of %s changed", label, exp.why, p.Cid)
					}
				}
			}
			continue
		}
		if err != nil {
			run.Violate("C04/valid_request_failed", s.Op, "%s is well-formed and allowed but failed: %v", label, err)
			continue
		}
		// apply to the model
		if exp.pin != nil {
			cp := *exp.pin
			model.pins[target.String()] = &cp
		}
		for _, c := range exp.remove {
			delete(model.pins, c.String())
		}
		want := model.keys()
		if !sameStrings(want, after) {
			clause := "C04/pinset_differs_from_request"
			sig := s.Op
			if exp.pin != nil {
				if st, gerr := w.sh.State().Get(ctx, target); gerr == nil && optsKey(&st.PinOptions) != optsKey(&exp.pin.PinOptions) {
					clause = "C04/option_change_not_stored"
					sig = diffOpts(&exp.pin.PinOptions, &st.PinOptions)
				}
			}
			run.Violate(clause, sig, "%s succeeded; expected entries missing from the pinset: %v; unexpected entries present: %v", label, minus(want, after), minus(after, want))
			// resynchronise the model so that one divergence is reported once
			model.pins = map[string]*api.Pin{}
			for _, p := range w.sh.List() {
				model.pins[p.Cid.String()] = p
			}
			continue
		}
		// allocations
		if exp.pin != nil {
			got := allocsOf(target)
			switch {
			case exp.copyOf != nil:
				src := sortedInts(w.idxs(exp.copyOf.Allocations))
				if fmt.Sprint(got) != fmt.Sprint(src) {
					run.Violate("C04/update_did_not_copy_allocations", "", "%s: the source is allocated to %v but the new pin to %v", label, src, got)
				}
				if fmt.Sprint(beforeAllocs[from.String()]) != fmt.Sprint(allocsOf(from)) {
					run.Violate("C04/update_touched_source", "", "%s changed the source's allocations", label)
				}
				run.Probe("updates")
			case exp.keep:
				if fmt.Sprint(got) != fmt.Sprint(beforeAllocs[target.String()]) {
					run.Violate("C04/identical_repin_changed_allocations", "", "%s with identical options changed the allocations from %v to %v", label, beforeAllocs[target.String()], got)
				}
			default:
				rmin, rmax := exp.pin.ReplicationFactorMin, exp.pin.ReplicationFactorMax
				bad := ""
				seen := map[int]bool{}
				for _, a := range got {
					if a < 0 || a >= members {
						bad = "unknown peer"
					}
					if seen[a] {
						bad = "duplicate peer"
					}
					seen[a] = true
				}
				if rmin == -1 && len(got) != 0 {
					bad = "pin-everywhere entry with allocations"
				}
				if rmin > 0 && (len(got) < rmin || len(got) > rmax) {
					bad = fmt.Sprintf("%d allocations outside [%d,%d]", len(got), rmin, rmax)
				}
				if bad != "" {
					run.Violate("C04/invalid_allocation", bad, "%s stored allocations %v: %s", label, got, bad)
				}
			}
			// keep the model's allocations in step with reality (they are judged above)
			if st, gerr := w.sh.State().Get(ctx, target); gerr == nil {
				model.pins[target.String()].Allocations = st.Allocations
			}
		}
		// nothing else moved
		for _, p := range w.sh.List() {
			if p.Cid.Equals(target) {
				continue
			}
			if b, ok := beforeAllocs[p.Cid.String()]; ok && fmt.Sprint(b) != fmt.Sprint(sortedInts(w.idxs(p.Allocations))) {
				run.Violate("C04/unrelated_entry_changed", "", "%s changed the allocations of unrelated entry %s", label, p.Cid)
			}
		}
	}
}

var shardDag cid.Cid

func diffOpts(want, got *api.PinOptions) string {
	var d []string
	if want.Name != got.Name {
		d = append(d, "name")
	}
	if want.Mode != got.Mode {
		d = append(d, "mode")
	}
	if want.ReplicationFactorMin != got.ReplicationFactorMin || want.ReplicationFactorMax != got.ReplicationFactorMax {
		d = append(d, "factors")
	}
	if want.ExpireAt.Unix() != got.ExpireAt.Unix() {
		d = append(d, "expiry")
	}
	if len(want.Metadata) < len(got.Metadata) {
		d = append(d, "metadata key removed")
	} else if len(want.Metadata) > len(got.Metadata) {
		d = append(d, "metadata key added")
	} else if fmt.Sprint(want.Metadata) != fmt.Sprint(got.Metadata) {
		d = append(d, "metadata value")
	}
	if len(want.Origins) != len(got.Origins) {
		d = append(d, "origins")
	}
	return fmt.Sprint(d)
}

func minus(a, b []string) []string {
	in := map[string]bool{}
	for _, x := range b {
		in[x] = true
	}
	var out []string
	for _, x := range a {
		if !in[x] {
			out = append(out, x)
		}
	}
	return out
}
