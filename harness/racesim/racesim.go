// Package racesim drives the public operations of the shared structures named
// by C18 from several caller goroutines at once, in a binary built with the
// race detector: the pin tracker and its operation table, the metrics store,
// checker and pubsub monitor, the Cluster facade (alerts list, pin/unpin,
// status, peers, shutdown while in use), the disk and numpin informers, and the
// CRDT consensus component with its batching queue. The plan decides which
// caller does what and when (fake clock); the race detector decides on the
// happens-before relation of the memory accesses, which does not depend on
// the interleaving that happened to run. A race report, a panic on a goroutine
// of the code under test or a stuck shutdown ends the worker process and is
// reported by the driver; structural checks on returned values are violations
// of their own clauses.
package racesim

import (
	"context"
	"encoding/json"
	"fmt"
	"os"
	"path/filepath"
	"runtime"
	"sync"
	"sync/atomic"
	"testing"
	"testing/synctest"
	"time"

	cid "github.com/ipfs/go-cid"
	ds "github.com/ipfs/go-datastore"
	dssync "github.com/ipfs/go-datastore/sync"
	ipfscluster "github.com/ipfs/ipfs-cluster"
	"github.com/ipfs/ipfs-cluster/allocator/descendalloc"
	"github.com/ipfs/ipfs-cluster/api"
	"github.com/ipfs/ipfs-cluster/consensus/crdt"
	"github.com/ipfs/ipfs-cluster/informer/disk"
	"github.com/ipfs/ipfs-cluster/informer/numpin"
	"github.com/ipfs/ipfs-cluster/monitor/metrics"
	"github.com/ipfs/ipfs-cluster/monitor/pubsubmon"
	"github.com/ipfs/ipfs-cluster/pintracker/stateless"
	"github.com/ipfs/ipfs-cluster/state"
	"github.com/ipfs/ipfs-cluster/version"
	peer "github.com/libp2p/go-libp2p-core/peer"
	rpc "github.com/libp2p/go-libp2p-gorpc"
	dual "github.com/libp2p/go-libp2p-kad-dht/dual"
	pubsub "github.com/libp2p/go-libp2p-pubsub"

	"verif/simkit"
)

type Step struct {
	Client int    `json:"client"`
	Op     string `json:"op"`
	Cid    int    `json:"cid,omitempty"`
	Peer   int    `json:"peer,omitempty"`
	N      int    `json:"n,omitempty"`
	Ms     int    `json:"ms,omitempty"` // pause of this client before the call
	Valid  bool   `json:"valid,omitempty"`
	TTLMs  int    `json:"ttl_ms,omitempty"`
}

type H struct{}

func (H) Name() string { return "racesim" }

var scenarios = []string{"tracker", "metrics", "cluster", "crdt", "informers", "tracker_fail", "checks_overlap"}

var opsOf = map[string][]string{
	"tracker":   {"track", "track", "untrack", "status", "statusall", "recover", "recoverall", "statusall", "release", "opcount"},
	"metrics":   {"log", "log", "log", "latest", "all", "peermetrics", "check", "checkall", "alerts", "remove", "distribution", "names", "pub", "monlatest"},
	"cluster":   {"alert", "alert", "alert", "alerts", "alerts", "pin", "unpin", "statusall", "status", "peers", "id", "pins", "recoverall", "sync"},
	"crdt":      {"logpin", "logpin", "logunpin", "list", "trust", "distrust", "peers", "clean_no"},
	"informers": {"disk", "numpin", "disk", "numpin", "pause"},
	// directed: operations keep failing (every other daemon call is refused) while
	// the other callers read statuses in the same instants
	"tracker_fail": {"track", "recover", "status", "status", "statusall", "status", "recoverall", "untrack"},
	// directed: metrics keep expiring while the checker's own ticker and several
	// callers check the same peers in the same instants
	"checks_overlap": {"log", "check", "checkall", "check", "alerts", "checkall", "log", "check"},
}

func (H) Generate(prop, tier string, seed uint64) *simkit.Plan {
	r := simkit.NewRng(seed)
	p := &simkit.Plan{Property: "C18", Harness: "racesim", Seed: seed, RTSeed: r.Uint64() % 1000}
	p.Scenario = scenarios[r.Intn(len(scenarios))]
	clients := r.Range(2, 5)
	p.SetKnob("clients", int64(clients))
	p.SetKnob("ncids", int64(r.Range(1, 5)))
	p.SetKnob("concurrent", int64(r.Range(1, 4)))
	p.SetKnob("queue", int64(r.Range(1, 8)))
	p.SetKnob("batch_size", int64(r.Range(1, 6)))
	p.SetKnob("batch_age_ms", int64([]int{20, 200, 2000}[r.Intn(3)]))
	p.SetKnob("hold", int64(r.Intn(2)))
	p.SetKnob("check_ms", int64([]int{50, 500}[r.Intn(2)]))
	// seeded scheduling points at lock acquisitions (simrt overlay): without them
	// two consecutive acquisitions by one goroutine are never separated on one P
	p.SetKnob("lock_yield", int64([]int{0, 30, 100, 300, 600}[r.Intn(5)]))
	burst := r.Chance(0.2) // many alerts: the list is reset above 1000 entries
	n := r.Range(8, 60)
	if p.Scenario == "checks_overlap" {
		n = r.Range(60, 200)
		p.SetKnob("lock_yield", int64([]int{100, 300, 600}[r.Intn(3)]))
		p.SetKnob("check_ms", int64([]int{5, 50}[r.Intn(2)]))
	}
	if p.Scenario == "tracker_fail" {
		n = r.Range(40, 160)
		p.SetKnob("lock_yield", int64([]int{100, 300, 600}[r.Intn(3)]))
		p.SetKnob("hold", 0)
		p.SetKnob("fail_half", 1)
		p.SetKnob("ncids", int64(r.Range(1, 3)))
	}
	ops := opsOf[p.Scenario]
	for i := 0; i < n; i++ {
		st := Step{Client: r.Intn(clients), Op: ops[r.Intn(len(ops))], Cid: r.Intn(5), Peer: r.Intn(4)}
		// most calls land at the same instants as calls of other clients
		st.Ms = []int{0, 0, 0, 1, 5, 50, 400}[r.Intn(7)]
		if p.Scenario == "tracker_fail" {
			st.Ms = []int{0, 0, 0, 0, 1, 5}[r.Intn(6)]
			st.Cid = r.Intn(int(p.Knob("ncids", 2)))
		}
		if p.Scenario == "checks_overlap" {
			st.Ms = []int{0, 0, 0, 1, 5, 5, 10}[r.Intn(7)]
			st.TTLMs = []int{1, 5, 50}[r.Intn(3)]
			st.Valid = true
			st.Peer = r.Intn(2)
			st.Cid = 0
		}
		st.Valid = r.Chance(0.8)
		st.TTLMs = []int{1, 50, 500, 5000}[r.Intn(4)]
		st.N = r.Range(1, 4)
		if burst && st.Op == "alert" {
			st.N = r.Range(200, 700)
		}
		p.AddStep(st)
	}
	// shutting down while in use
	if r.Chance(0.6) {
		// (N: how many callers shut it down in the same instant)
		p.AddStep(Step{Client: r.Intn(clients), Op: "shutdown", Ms: []int{0, 1, 20, 300}[r.Intn(4)], N: r.Pick(3, 2) + 1})
		for i, m := 0, r.Range(0, 10); i < m; i++ {
			p.AddStep(Step{Client: r.Intn(clients), Op: ops[r.Intn(len(ops))], Cid: r.Intn(5), Peer: r.Intn(4), Ms: []int{0, 0, 1, 10}[r.Intn(4)], N: 1, Valid: true, TTLMs: 500})
		}
	}
	return p
}

func (H) Execute(t *testing.T, plan *simkit.Plan, run *simkit.Run) {
	run.Begin()
	run.NoFaultDimension = true
	var do func(Step)
	var cleanup func()
	switch plan.Scenario {
	case "tracker", "tracker_fail":
		do, cleanup = trackerWorld(plan, run)
	case "metrics", "checks_overlap":
		do, cleanup = metricsWorld(plan, run)
	case "cluster":
		do, cleanup = clusterWorld(plan, run)
	case "crdt":
		do, cleanup = crdtWorld(plan, run)
	case "informers":
		do, cleanup = informerWorld(plan, run)
	default:
		panic("racesim: unknown scenario " + plan.Scenario)
	}
	clients := int(plan.Knob("clients", 2))
	scripts := make([][]Step, clients)
	for _, raw := range plan.Steps {
		var s Step
		if err := json.Unmarshal(raw, &s); err != nil {
			panic(err)
		}
		scripts[s.Client%clients] = append(scripts[s.Client%clients], s)
	}
	var wg sync.WaitGroup
	for c := range scripts {
		wg.Add(1)
		go func(c int) {
			defer wg.Done()
			for _, s := range scripts[c] {
				if s.Ms > 0 {
					time.Sleep(time.Duration(s.Ms) * time.Millisecond)
				}
				run.Step()
				run.Op()
				do(s)
			}
		}(c)
	}
	done := make(chan struct{})
	go func() { wg.Wait(); close(done) }()
	select {
	case <-done:
		run.Probe("all_callers_returned")
	case <-time.After(10 * time.Minute):
		if os.Getenv("VERIF_DEBUG_STACKS") != "" {
			buf := make([]byte, 16<<20)
			os.Stderr.Write(buf[:runtime.Stack(buf, true)])
		}
		run.Violate("C18/callers_stuck", plan.Scenario, "10 simulated minutes after the last call was issued some callers of the %s scenario have not returned", plan.Scenario)
	}
	cleanup()
	synctest.Wait()
}

// callers runs fn from n callers at once (n < 2: from one) and reports whether
// all of them were back within the bound.
func callers(run *simkit.Run, n int, bound time.Duration, fn func()) bool {
	if n < 2 {
		return call(bound, fn)
	}
	run.Probe("shutdown_by_two_callers_at_once")
	res := make(chan bool, n)
	for i := 0; i < n; i++ {
		go func() { res <- call(bound, fn) }()
	}
	ok := true
	for i := 0; i < n; i++ {
		if !<-res {
			ok = false
		}
	}
	return ok
}

func call(bound time.Duration, fn func()) bool {
	done := make(chan struct{})
	go func() { fn(); close(done) }()
	select {
	case <-done:
		return true
	case <-time.After(bound):
		return false
	}
}

// ------------------------------------------------------------------ tracker

type modelState struct {
	mu   sync.Mutex
	pins map[string]*api.Pin
}

func (m *modelState) List(ctx context.Context) ([]*api.Pin, error) {
	m.mu.Lock()
	defer m.mu.Unlock()
	out := make([]*api.Pin, 0, len(m.pins))
	for i := 0; i < 8; i++ {
		if p, ok := m.pins[simkit.TestCid(i).String()]; ok {
			cp := *p
			out = append(out, &cp)
		}
	}
	return out, nil
}
func (m *modelState) Has(ctx context.Context, c cid.Cid) (bool, error) {
	m.mu.Lock()
	defer m.mu.Unlock()
	_, ok := m.pins[c.String()]
	return ok, nil
}
func (m *modelState) Get(ctx context.Context, c cid.Cid) (*api.Pin, error) {
	m.mu.Lock()
	defer m.mu.Unlock()
	p, ok := m.pins[c.String()]
	if !ok {
		return nil, state.ErrNotFound
	}
	cp := *p
	return &cp, nil
}

func trackerWorld(plan *simkit.Plan, run *simkit.Run) (func(Step), func()) {
	self := simkit.TestPeer(1)
	st := &modelState{pins: map[string]*api.Pin{}}
	ipfs := simkit.NewModelIPFS(run, "ipfs")
	ipfs.SetHold(plan.Knob("hold", 0) == 1)
	cfg := &stateless.Config{}
	cfg.Default()
	cfg.ConcurrentPins = int(plan.Knob("concurrent", 2))
	cfg.MaxPinQueueSize = int(plan.Knob("queue", 4))
	tr := stateless.New(cfg, self, "sim", func(ctx context.Context) (state.ReadOnly, error) { return st, nil })
	srv := rpc.NewServer(nil, "/sim/rpc")
	if err := srv.RegisterName("IPFSConnector", &simkit.IPFSConnectorSvc{M: ipfs}); err != nil {
		panic(err)
	}
	tr.SetClient(rpc.NewClientWithServer(nil, "/sim/rpc", srv))
	ctx := context.Background()
	// one entry is one consistent reading of the operation: an error status comes
	// with its message (they are set together)
	checkOne := func(what string, pi *api.PinInfo) {
		if pi.Status.Match(api.TrackerStatusError) && pi.Error == "" {
			run.Violate("C18/torn_status", "error_without_message", "%s reports %s as %s with an empty error message: status and message of a failed operation were read apart", what, pi.Cid, pi.Status)
		}
		if !pi.Status.Match(api.TrackerStatusError) && pi.Error != "" && pi.Status != api.TrackerStatusUndefined {
			run.Probe("message_without_error_status")
		}
	}
	checkAll := func(l []*api.PinInfo) {
		seen := map[string]bool{}
		for _, pi := range l {
			if pi == nil || !pi.Cid.Defined() {
				run.Violate("C18/torn_status", "empty", "StatusAll returned an entry without a CID among %d entries", len(l))
				continue
			}
			if seen[pi.Cid.String()] {
				run.Violate("C18/torn_status", "dup", "StatusAll lists %s twice", pi.Cid)
			}
			seen[pi.Cid.String()] = true
			checkOne("StatusAll", pi)
		}
		run.Probe("status_lists_checked")
	}
	do := func(s Step) {
		c := simkit.TestCid(s.Cid)
		pin := api.PinCid(c)
		pin.Allocations = []peer.ID{self}
		pin.ReplicationFactorMin, pin.ReplicationFactorMax = 1, 1
		if plan.Knob("fail_half", 0) == 1 && (s.Op == "track" || s.Op == "recover" || s.Op == "recoverall") && s.N%2 == 1 {
			ipfs.Script("err")
			run.Probe("daemon_failures_scripted")
		}
		switch s.Op {
		case "track":
			st.mu.Lock()
			st.pins[c.String()] = pin
			st.mu.Unlock()
			tr.Track(ctx, pin)
		case "untrack":
			st.mu.Lock()
			delete(st.pins, c.String())
			st.mu.Unlock()
			tr.Untrack(ctx, c)
		case "status":
			if pi := tr.Status(ctx, c); pi == nil || !pi.Cid.Equals(c) {
				run.Violate("C18/torn_status", "status", "Status(%s) answered for %v", c, pi)
			} else {
				checkOne("Status", pi)
			}
		case "statusall":
			checkAll(tr.StatusAll(ctx, api.TrackerStatusUndefined))
		case "recover":
			tr.Recover(ctx, c)
		case "recoverall":
			l, _ := tr.RecoverAll(ctx)
			checkAll(l)
		case "release":
			// completes a parked daemon call; when none is parked (or calls are not
			// held in this plan) the next daemon call gets the outcome instead, so that
			// operations fail in every plan while others read their status
			if !ipfs.Release(s.N, []string{"ok", "err"}[s.Cid%2]) && s.Cid%2 == 1 {
				ipfs.Script("err")
				run.Probe("daemon_failures_scripted")
			}
		case "opcount":
			tr.OpContext(ctx, c)
		case "shutdown":
			ipfs.SetHold(false)
			for ipfs.Release(0, "ok") {
			}
			if !callers(run, s.N, 2*time.Minute, func() { tr.Shutdown(ctx) }) {
				run.Violate("C18/shutdown_stuck", "tracker", "the pin tracker's Shutdown has not returned after 2 simulated minutes while other callers were using it")
			}
			run.Probe("shutdown_while_in_use")
		}
	}
	return do, func() {
		ipfs.SetHold(false)
		for ipfs.Release(0, "ok") {
		}
		call(time.Minute, func() { tr.Shutdown(ctx) })
	}
}

// ------------------------------------------------------------------ metrics store, checker, pubsub monitor

var metricSeq atomic.Int64

func metricsWorld(plan *simkit.Plan, run *simkit.Run) (func(Step), func()) {
	ctx, cancel := context.WithCancel(context.Background())
	net := simkit.NewNet(run, time.Millisecond)
	h := net.AddPeer(0)
	ps, err := pubsub.NewGossipSub(ctx, h)
	if err != nil {
		panic(err)
	}
	mcfg := &pubsubmon.Config{}
	mcfg.Default()
	mcfg.CheckInterval = time.Duration(plan.Knob("check_ms", 500)) * time.Millisecond
	peers := func(context.Context) ([]peer.ID, error) {
		return []peer.ID{simkit.TestPeer(0), simkit.TestPeer(1), simkit.TestPeer(2), simkit.TestPeer(3)}, nil
	}
	mon, err := pubsubmon.New(ctx, mcfg, ps, peers)
	if err != nil {
		panic(err)
	}
	srv := rpc.NewServer(h, version.RPCProtocol)
	mon.SetClient(rpc.NewClientWithServer(h, version.RPCProtocol, srv))
	// a store + checker of our own as well: the bare structures
	store := metrics.NewStore()
	checker := metrics.NewChecker(ctx, store, 3.0)
	go checker.Watch(ctx, peers, time.Duration(plan.Knob("check_ms", 500))*time.Millisecond)
	names := []string{"ping", "freespace"}
	checkList := func(what string, l []*api.Metric, uniquePeers bool) {
		seen := map[string]bool{}
		for _, m := range l {
			if m == nil || m.Name == "" {
				run.Violate("C18/torn_metrics", what+"-empty", "%s returned an empty entry among %d", what, len(l))
				continue
			}
			k := m.Name + "|" + string(m.Peer)
			if uniquePeers && seen[k] {
				run.Violate("C18/torn_metrics", what+"-dup", "%s lists %s of peer %s twice", what, m.Name, m.Peer)
			}
			seen[k] = true
		}
		run.Probe("metric_lists_checked")
	}
	var alertMu sync.Mutex
	alerted := map[string]int{}
	drain := func(ch <-chan *api.Alert) {
		for {
			select {
			case a := <-ch:
				if a == nil || a.Name == "" || a.Peer == "" {
					run.Violate("C18/torn_alert", "", "an alert without name or peer was delivered: %+v", a)
				} else if a.Value != "" {
					// one expiry, one alert, also when two check rounds overlap (the
					// ticker's and a caller's): the failure count is read and bumped as one
					k := fmt.Sprintf("%p|%s|%s|%s", ch, a.Peer, a.Name, a.Value)
					alertMu.Lock()
					alerted[k]++
					n := alerted[k]
					alertMu.Unlock()
					if n == 2 {
						run.Violate("C18/alert_duplicated", "", "the expiry of one metric (%s of peer %s, value %s) was alerted twice: overlapping check rounds both took it for new", a.Name, a.Peer, a.Value)
					}
				}
				run.Probe("alerts_read")
			default:
				return
			}
		}
	}
	do := func(s Step) {
		pid := simkit.TestPeer(s.Peer)
		name := names[s.Cid%2]
		mk := func() *api.Metric {
			// (every logged metric has a value of its own: an alert names the metric
			// that expired, so two alerts with one value are two alerts for one expiry)
			return &api.Metric{Name: name, Peer: pid, Value: fmt.Sprintf("%d", metricSeq.Add(1)), Valid: s.Valid, Expire: time.Now().Add(time.Duration(s.TTLMs) * time.Millisecond).UnixNano(), ReceivedAt: time.Now().UnixNano()}
		}
		switch s.Op {
		case "log":
			store.Add(mk())
			mon.LogMetric(ctx, mk())
		case "pub":
			m := mk()
			m.Peer = h.ID()
			mon.PublishMetric(ctx, m)
		case "latest":
			checkList("LatestValid", store.LatestValid(name), true)
		case "monlatest":
			checkList("LatestMetrics", mon.LatestMetrics(ctx, name), true)
		case "all":
			checkList("AllMetrics", store.AllMetrics(), true)
		case "peermetrics":
			checkList("PeerMetrics", store.PeerMetrics(pid), true)
			store.PeerMetricAll(name, pid)
			store.PeerLatest(name, pid)
		case "check":
			checker.CheckPeers([]peer.ID{pid, simkit.TestPeer((s.Peer + 1) % 4)})
		case "checkall":
			checker.CheckAll()
			checker.FailedMetric(name, pid)
		case "alerts":
			drain(checker.Alerts())
			drain(mon.Alerts())
		case "remove":
			store.RemovePeer(pid)
			store.RemovePeerMetrics(pid, name)
		case "distribution":
			store.Distribution(name, pid)
		case "names":
			store.MetricNames()
			mon.MetricNames(ctx)
		case "shutdown":
			if !callers(run, s.N, 2*time.Minute, func() { mon.Shutdown(ctx) }) {
				run.Violate("C18/shutdown_stuck", "monitor", "the monitor's Shutdown has not returned after 2 simulated minutes while other callers were using it")
			}
			run.Probe("shutdown_while_in_use")
		}
	}
	return do, func() {
		call(time.Minute, func() { mon.Shutdown(ctx) })
		cancel()
		net.Close()
	}
}

// ------------------------------------------------------------------ cluster facade

func clusterWorld(plan *simkit.Plan, run *simkit.Run) (func(Step), func()) {
	ctx, cancel := context.WithCancel(context.Background())
	tmp := os.Getenv("VERIF_TMP")
	if tmp == "" {
		tmp = "/dev/shm"
	}
	base := filepath.Join(tmp, fmt.Sprintf("rs-%d-%s", os.Getpid(), plan.Digest()))
	os.MkdirAll(base, 0o755)
	net := simkit.NewNet(run, time.Millisecond)
	h := net.AddPeer(0)
	ids := []peer.ID{simkit.TestPeer(0), simkit.TestPeer(1), simkit.TestPeer(2), simkit.TestPeer(3)}
	sh := simkit.NewSharedPinset(run, ids)
	cfg := &ipfscluster.Config{}
	if err := cfg.Default(); err != nil {
		panic(err)
	}
	cfg.Peername = "sim0"
	cfg.SetBaseDir(base)
	cfg.MDNSInterval = 0
	cfg.ReplicationFactorMin, cfg.ReplicationFactorMax = 1, 2
	cfg.StateSyncInterval = 2 * time.Second
	cfg.PinRecoverInterval = 3 * time.Second
	cfg.PeerWatchInterval = time.Second
	cfg.MonitorPingInterval = 500 * time.Millisecond
	cons := simkit.NewModelConsensus(sh, h.ID())
	mon := simkit.NewModelMonitor(run, "mon0", nil)
	for i, id := range ids {
		mon.LogMetric(ctx, &api.Metric{Name: "freespace", Peer: id, Value: fmt.Sprintf("%d", 1000-i), Valid: true, Expire: time.Now().Add(1000 * time.Hour).UnixNano()})
		mon.LogMetric(ctx, &api.Metric{Name: "ping", Peer: id, Valid: true, Expire: time.Now().Add(1000 * time.Hour).UnixNano()})
	}
	tr := simkit.NewModelTracker(h.ID())
	ipfsM := simkit.NewModelIPFS(run, "ipfs0")
	ipfs := simkit.NewModelIPFSConn(ipfsM)
	dc := &disk.Config{}
	dc.Default()
	dc.MetricTTL = 300 * time.Millisecond
	di, err := disk.NewInformer(dc)
	if err != nil {
		panic(err)
	}
	nc := &numpin.Config{}
	nc.Default()
	nc.MetricTTL = 300 * time.Millisecond
	ni, err := numpin.NewInformer(nc)
	if err != nil {
		panic(err)
	}
	cl, err := ipfscluster.NewCluster(ctx, h, nil, cfg, dssync.MutexWrap(ds.NewMapDatastore()), cons, nil, ipfs, tr, mon, descendalloc.NewAllocator(), []ipfscluster.Informer{di, ni}, simkit.NopTracer{})
	if err != nil {
		panic(err)
	}
	select {
	case <-cl.Ready():
	case <-time.After(30 * time.Second):
		panic("cluster not ready")
	}
	var nonce int
	var nmu sync.Mutex
	var deaf atomic.Bool
	do := func(s Step) {
		c := simkit.TestCid(s.Cid)
		switch s.Op {
		case "alert":
			for i := 0; i < s.N; i++ {
				nmu.Lock()
				nonce++
				k := nonce
				nmu.Unlock()
				a := &api.Alert{Metric: api.Metric{Name: "freespace", Peer: ids[1+s.Peer%3], Value: fmt.Sprintf("%d", k), Expire: int64(k)}, TriggeredAt: time.Now()}
				for try := 0; !deaf.Load() && !mon.Inject(a); try++ {
					if try > 2000 {
						deaf.Store(true) // nobody reads alerts any more (the peer was shut down)
						break
					}
					time.Sleep(time.Millisecond) // the handler is behind: let it catch up
				}
			}
			run.Probe("alerts_injected")
		case "alerts":
			l := cl.Alerts()
			seen := map[string]bool{}
			for i, a := range l {
				if a.Name == "" || a.Peer == "" {
					run.Violate("C18/torn_alert_list", "empty", "Alerts() returned %d entries and entry %d is empty", len(l), i)
					break
				}
				if seen[a.Value] {
					run.Violate("C18/torn_alert_list", "dup", "Alerts() lists alert #%s twice among %d entries", a.Value, len(l))
					break
				}
				seen[a.Value] = true
			}
			run.Probe("alert_lists_checked")
		case "pin":
			cl.Pin(ctx, c, api.PinOptions{Name: fmt.Sprintf("n%d", s.N)})
		case "unpin":
			cl.Unpin(ctx, c)
		case "statusall":
			cl.StatusAllLocal(ctx, api.TrackerStatusUndefined)
			cl.StatusAll(ctx, api.TrackerStatusUndefined)
		case "status":
			cl.StatusLocal(ctx, c)
		case "peers":
			cl.Peers(ctx)
		case "id":
			cl.ID(ctx)
		case "pins":
			cl.Pins(ctx)
		case "recoverall":
			cl.RecoverAllLocal(ctx)
		case "sync":
			cl.StateSync(ctx)
		case "shutdown":
			if !callers(run, s.N, 2*time.Minute, func() { cl.Shutdown(ctx) }) {
				run.Violate("C18/shutdown_stuck", "cluster", "Cluster.Shutdown has not returned after 2 simulated minutes while other callers were using the peer")
			}
			run.Probe("shutdown_while_in_use")
		}
	}
	return do, func() {
		call(time.Minute, func() { cl.Shutdown(ctx) })
		cancel()
		net.Close()
		os.RemoveAll(base)
	}
}

// ------------------------------------------------------------------ informers alone

func informerWorld(plan *simkit.Plan, run *simkit.Run) (func(Step), func()) {
	ipfsM := simkit.NewModelIPFS(run, "ipfs0")
	srv := rpc.NewServer(nil, "/sim/rpc")
	if err := srv.RegisterName("IPFSConnector", &simkit.IPFSConnectorSvc{M: ipfsM}); err != nil {
		panic(err)
	}
	client := rpc.NewClientWithServer(nil, "/sim/rpc", srv)
	dc := &disk.Config{}
	dc.Default()
	di, _ := disk.NewInformer(dc)
	nc := &numpin.Config{}
	nc.Default()
	ni, _ := numpin.NewInformer(nc)
	di.SetClient(client)
	ni.SetClient(client)
	ctx := context.Background()
	do := func(s Step) {
		switch s.Op {
		case "disk":
			if m := di.GetMetric(ctx); m == nil {
				run.Violate("C18/torn_metrics", "disk", "the disk informer returned %v", m)
			}
		case "numpin":
			if m := ni.GetMetric(ctx); m == nil {
				run.Violate("C18/torn_metrics", "numpin", "the numpin informer returned %v", m)
			}
		case "shutdown":
			callers(run, s.N, 2*time.Minute, func() {
				di.Shutdown(ctx)
				ni.Shutdown(ctx)
			})
			run.Probe("shutdown_while_in_use")
		}
	}
	return do, func() {}
}

// ------------------------------------------------------------------ CRDT consensus and its batching queue

type trackerSvc struct{}

func (trackerSvc) Track(ctx context.Context, in *api.Pin, out *struct{}) error   { return nil }
func (trackerSvc) Untrack(ctx context.Context, in *api.Pin, out *struct{}) error { return nil }

type monSvc struct{}

func (monSvc) LatestMetrics(ctx context.Context, in string, out *[]*api.Metric) error {
	*out = nil
	return nil
}

func crdtWorld(plan *simkit.Plan, run *simkit.Run) (func(Step), func()) {
	ctx, cancel := context.WithCancel(context.Background())
	net := simkit.NewNet(run, time.Millisecond)
	h := net.AddPeer(0)
	dht, err := dual.New(ctx, h)
	if err != nil {
		panic(err)
	}
	ps, err := pubsub.NewGossipSub(ctx, h, pubsub.WithMessageSigning(true), pubsub.WithStrictSignatureVerification(true))
	if err != nil {
		panic(err)
	}
	cfg := &crdt.Config{}
	cfg.Default()
	cfg.ClusterName = "racesim"
	cfg.TrustAll = false
	cfg.TrustedPeers = []peer.ID{simkit.TestPeer(1)}
	cfg.RebroadcastInterval = time.Second
	cfg.Batching.MaxQueueSize = int(plan.Knob("queue", 8))
	cfg.Batching.MaxBatchSize = int(plan.Knob("batch_size", 4))
	cfg.Batching.MaxBatchAge = time.Duration(plan.Knob("batch_age_ms", 200)) * time.Millisecond
	cons, err := crdt.New(h, dht, ps, cfg, dssync.MutexWrap(ds.NewMapDatastore()))
	if err != nil {
		panic(err)
	}
	srv := rpc.NewServer(h, version.RPCProtocol)
	srv.RegisterName("PinTracker", trackerSvc{})
	srv.RegisterName("PeerMonitor", monSvc{})
	cons.SetClient(rpc.NewClientWithServer(h, version.RPCProtocol, srv))
	select {
	case <-cons.Ready(ctx):
	case <-time.After(10 * time.Second):
		panic("crdt consensus not ready")
	}
	do := func(s Step) {
		c := simkit.TestCid(s.Cid)
		p := api.PinCid(c)
		p.Name = fmt.Sprintf("n%d", s.N)
		p.ReplicationFactorMin, p.ReplicationFactorMax = -1, -1
		switch s.Op {
		case "logpin":
			cons.LogPin(ctx, p)
		case "logunpin":
			cons.LogUnpin(ctx, p)
		case "list":
			st, err := cons.State(ctx)
			if err != nil {
				return
			}
			l, err := st.List(ctx)
			if err != nil {
				return
			}
			seen := map[string]bool{}
			for _, x := range l {
				if x == nil || !x.Cid.Defined() {
					run.Violate("C18/torn_pinset", "empty", "the pinset lists an entry without a CID")
					continue
				}
				if seen[x.Cid.String()] {
					run.Violate("C18/torn_pinset", "dup", "the pinset lists %s twice", x.Cid)
				}
				seen[x.Cid.String()] = true
			}
			run.Probe("pinsets_checked")
		case "trust":
			cons.Trust(ctx, simkit.TestPeer(s.Peer))
			cons.IsTrustedPeer(ctx, simkit.TestPeer(s.Peer))
		case "distrust":
			cons.Distrust(ctx, simkit.TestPeer(s.Peer))
		case "peers":
			cons.Peers(ctx)
		case "shutdown":
			if !callers(run, s.N, 2*time.Minute, func() { cons.Shutdown(ctx) }) {
				run.Violate("C18/shutdown_stuck", "crdt", "the CRDT component's Shutdown has not returned after 2 simulated minutes while other callers were using it")
			}
			run.Probe("shutdown_while_in_use")
		}
	}
	return do, func() {
		call(time.Minute, func() { cons.Shutdown(ctx) })
		cancel()
		net.Close()
	}
}
