package racesim

import (
	"testing"

	"verif/simkit"
)

func TestSim(t *testing.T) { simkit.Main(t, H{}) }
