package raftsim

import (
	"bytes"
	"context"
	"fmt"
	"os"
	"path/filepath"
	"sort"
	"strings"
	"testing/synctest"
	"time"

	ds "github.com/ipfs/go-datastore"
	dssync "github.com/ipfs/go-datastore/sync"
	ipfscluster "github.com/ipfs/ipfs-cluster"
	"github.com/ipfs/ipfs-cluster/api"
	"github.com/ipfs/ipfs-cluster/cmdutils"
	"github.com/ipfs/ipfs-cluster/config"
	"github.com/ipfs/ipfs-cluster/consensus/raft"
	"github.com/ipfs/ipfs-cluster/pstoremgr"
	"github.com/ipfs/ipfs-cluster/state/dsstate"
	"github.com/libp2p/go-libp2p-core/peerstore"
	ma "github.com/multiformats/go-multiaddr"

	"verif/simkit"
)

// C14: export/import, snapshots read offline or started on, backup rotation,
// peerstore file. Runs in the raftsim world because "start a peer on it" and
// "the snapshot written at shutdown" need the simulated system.

func genC14(tier string, seed uint64) *simkit.Plan {
	r := simkit.NewRng(seed)
	p := &simkit.Plan{Property: "C14", Harness: "raftsim", Seed: seed, RTSeed: r.Uint64() % 1000}
	p.SetKnob("peers", 1)
	ncids := r.Range(1, 6)
	p.SetKnob("ncids", int64(ncids))
	p.SetKnob("heartbeat_ms", 100)
	p.SetKnob("commit_ms", 10)
	p.SetKnob("snap_threshold", int64([]int{2, 8, 64}[r.Intn(3)]))
	p.SetKnob("snap_interval_ms", int64([]int{300, 30000}[r.Intn(2)]))
	p.SetKnob("trailing", int64([]int{0, 2, 32}[r.Intn(3)]))
	p.SetKnob("wait_leader_ms", 5000)
	p.SetKnob("latency_ms", 1)
	rot := r.Range(1, 6)
	p.SetKnob("rotate", int64(rot))
	p.SetKnob("preexisting", int64(r.Range(0, rot)))
	if r.Chance(0.3) {
		// any set of backup folders: holes in the numbering (a backup restored or
		// deleted by hand), folders beyond the retention
		p.SetKnob("premask", int64(1+r.Intn(1<<uint(rot+2)-1)))
	}
	p.SetKnob("target_has_state", int64(r.Intn(3)))
	if r.Chance(0.15) {
		// data_folder written with a trailing separator ("/data/raft/")
		p.SetKnob("folder_slash", 1)
	}
	// the pinset
	n := r.Range(1, 12)
	for i := 0; i < n; i++ {
		if i > 0 && r.Chance(0.2) {
			p.AddStep(Step{Op: "unpin", Pin: &PinSpec{Cid: r.Intn(ncids), RMin: -1, RMax: -1}})
			continue
		}
		pin := genPin(r, ncids, 1)
		pin.Origins = 0 // known finding of C01: origins do not survive the Raft log; JSON export is exercised by the other fields
		p.AddStep(Step{Op: "pin", Pin: pin})
	}
	if r.Chance(0.15) {
		// every pinset: the empty one too (everything unpinned again)
		for c := 0; c < ncids; c++ {
			p.AddStep(Step{Op: "unpin", Pin: &PinSpec{Cid: c, RMin: -1, RMax: -1}})
		}
	}
	p.AddStep(Step{Op: "roundtrip"})
	k := r.Range(1, 5)
	for i := 0; i < k; i++ {
		// Ms: how many writes to add (and snapshot) before the clean; 0 = clean a folder that holds only the last snapshot
		// B=1: the newest snapshot's state file is cut short first (a write torn by a crash)
		p.AddStep(Step{Op: "clean", Ms: r.Intn(3), B: r.Pick(4, 1)})
	}
	p.AddStep(Step{Op: "peerstore", Ms: r.Intn(1 << 20)})
	return p
}

func (w *world) runSingle(dir string) *inc {
	nd := w.start(0, dir, w.cur[0] == nil)
	if !nd.alive {
		return nd
	}
	deadline := time.Now().Add(20 * time.Second)
	for time.Now().Before(deadline) {
		time.Sleep(200 * time.Millisecond)
		if l := w.leader(); l == 0 {
			break
		}
	}
	// ready means: the snapshot/log has been replayed
	select {
	case <-nd.cons.Ready(context.Background()):
	case <-time.After(20 * time.Second):
	}
	return nd
}

func (w *world) stopSingle() {
	nd := w.cur[0]
	if nd != nil && nd.alive {
		nd.cons.Shutdown(context.Background())
		nd.alive = false
		nd.graceful = true
		synctest.Wait()
	}
}

func listDir(base string) []string {
	es, _ := os.ReadDir(base)
	var out []string
	for _, e := range es {
		if strings.HasPrefix(e.Name(), "raft") {
			out = append(out, e.Name())
		}
	}
	sort.Strings(out)
	return out
}

// newestSnapshotState: the state file of the newest snapshot (directories are
// named term-index-milliseconds) under a Raft data folder, "" when there is none.
func newestSnapshotState(data string) string {
	es, _ := os.ReadDir(filepath.Join(data, "snapshots"))
	best, bestKey := "", [3]int64{-1, -1, -1}
	for _, e := range es {
		var k [3]int64
		if n, _ := fmt.Sscanf(e.Name(), "%d-%d-%d", &k[0], &k[1], &k[2]); n != 3 || strings.HasSuffix(e.Name(), ".tmp") {
			continue
		}
		if k[0] > bestKey[0] || (k[0] == bestKey[0] && (k[1] > bestKey[1] || (k[1] == bestKey[1] && k[2] > bestKey[2]))) {
			best, bestKey = e.Name(), k
		}
	}
	if best == "" {
		return ""
	}
	return filepath.Join(data, "snapshots", best, "state.bin")
}

func offlinePins(cfg *raft.Config) (map[string]string, error) {
	st, err := raft.OfflineState(cfg, dssync.MutexWrap(ds.NewMapDatastore()))
	if err != nil {
		return nil, err
	}
	pins, err := st.List(context.Background())
	if err != nil {
		return nil, err
	}
	m := map[string]string{}
	for _, p := range pins {
		m[p.Cid.String()] = render(p)
	}
	return m, nil
}

func execC14(w *world) {
	run := w.run
	plan := w.plan
	run.NoFaultDimension = true
	dirA := filepath.Join(w.base, "A")
	dirB := filepath.Join(w.base, "B")
	os.MkdirAll(dirA, 0o755)
	os.MkdirAll(dirB, 0o755)
	dataA := filepath.Join(dirA, "raft")
	rotate := int(plan.Knob("rotate", 3))
	mkcfg := func(data string) *raft.Config {
		c := w.mkcfg(data)
		c.BackupsRotate = rotate
		return c
	}
	w.rotate = rotate
	// pre-existing backups (contiguous, fewer than N): they must shift, the oldest go
	pre := int(plan.Knob("preexisting", 0))
	premask := int(plan.Knob("premask", 0))
	holes := false
	if premask > 0 {
		pre = 0
		for i := 0; i < rotate+2; i++ {
			if premask&(1<<uint(i)) != 0 {
				d := filepath.Join(dirA, fmt.Sprintf("raft.old.%d", i))
				os.MkdirAll(d, 0o700)
				os.WriteFile(filepath.Join(d, "marker"), []byte(fmt.Sprintf("pre%d", i)), 0o644)
			}
		}
		// contiguous from 0 and within the retention: the exact model applies
		for pre < rotate+2 && premask&(1<<uint(pre)) != 0 {
			pre++
		}
		if premask != (1<<uint(pre))-1 || pre > rotate {
			holes = true
			run.Probe("backup_sets_with_holes")
		}
	} else {
		for i := 0; i < pre; i++ {
			d := filepath.Join(dirA, fmt.Sprintf("raft.old.%d", i))
			os.MkdirAll(d, 0o700)
			os.WriteFile(filepath.Join(d, "marker"), []byte(fmt.Sprintf("pre%d", i)), 0o644)
		}
	}
	// markers of the backup folders as they are on disk: index -> marker
	readMarkers := func() map[int]string {
		out := map[int]string{}
		for _, name := range listDir(dirA) {
			var i int
			if _, err := fmt.Sscanf(name, "raft.old.%d", &i); err == nil {
				b, _ := os.ReadFile(filepath.Join(dirA, name, "marker"))
				out[i] = string(b)
			}
		}
		return out
	}

	nd := w.runSingle(dataA)
	if !nd.alive {
		panic("cannot start the single raft peer")
	}
	expected := map[string]string{}
	apply := func(s Step) {
		rec := w.submit(0, s)
		synctest.Wait()
		for i := 0; i < 100 && rec != nil && !rec.Done; i++ {
			time.Sleep(100 * time.Millisecond)
		}
	}
	syncExpected := func() {
		if st, err := w.stateOf(w.cur[0]); err == nil {
			expected = st
		}
	}
	backupsModel := []string{} // content markers of .old.i, newest first
	for i := 0; i < pre; i++ {
		backupsModel = append(backupsModel, fmt.Sprintf("pre%d", i))
	}
	gen := 0

	for _, raw := range plan.Steps {
		s := decodeStep(raw)
		run.Step()
		run.AbandonIfWallOver()
		switch s.Op {
		case "pin", "unpin":
			apply(s)
			run.Op()
		case "roundtrip":
			syncExpected()
			w.stopSingle()
			cfgA := mkcfg(dataA)
			// 1. the snapshot written at shutdown, read offline
			got, err := offlinePins(cfgA)
			if err != nil {
				run.Violate("C14/offline_state_error", "", "OfflineState after a graceful stop failed: %v", err)
				return
			}
			if !sameMap(got, expected) {
				run.Violate("C14/offline_state_differs", "", "the pinset at shutdown was %s; OfflineState on its data folder yields %s", fmtState(expected), fmtState(got))
			}
			run.Probe("offline_state_checked")
			// 1b. serialising then deserialising the state: into an empty state and
			// into one that holds other pins (one of them under a CID of this pinset,
			// one under a CID of its own) - what was there is replaced
			if stA, err := raft.OfflineState(cfgA, dssync.MutexWrap(ds.NewMapDatastore())); err == nil {
				var dump bytes.Buffer
				if err := stA.Marshal(&dump); err != nil {
					run.Violate("C14/serialise_error", "", "Marshal of the state failed: %v", err)
					return
				}
				for _, occupied := range []bool{false, true} {
					dst, err := dsstate.New(dssync.MutexWrap(ds.NewMapDatastore()), "", dsstate.DefaultHandle())
					if err != nil {
						panic(err)
					}
					if occupied {
						o1 := api.PinCid(w.cids[0])
						o1.Name = "resident-a"
						o2 := api.PinCid(simkit.TestCid(77))
						o2.Name = "resident-b"
						dst.Add(context.Background(), o1)
						dst.Add(context.Background(), o2)
					}
					if err := dst.Unmarshal(bytes.NewReader(dump.Bytes())); err != nil {
						run.Violate("C14/serialise_error", "", "Unmarshal of a state dump (%d bytes) failed: %v", dump.Len(), err)
						continue
					}
					pins, _ := dst.List(context.Background())
					gotD := map[string]string{}
					for _, p := range pins {
						gotD[p.Cid.String()] = render(p)
					}
					if !sameMap(gotD, expected) {
						run.Violate("C14/deserialised_differs", fmt.Sprintf("occupied=%v", occupied), "the pinset %s was serialised (%d bytes) and deserialised into a state that held %d other pins; it now lists %s", fmtState(expected), dump.Len(), map[bool]int{false: 0, true: 2}[occupied], fmtState(gotD))
					}
				}
				if len(expected) == 0 {
					run.Probe("empty_pinset_round_trip")
				}
				run.Probe("state_dump_round_trips")
			}
			// 2. export (JSON stream) ...
			ident := &config.Identity{ID: simkit.TestPeer(0)}
			ccA := &ipfscluster.Config{}
			ccA.Default()
			ccA.SetBaseDir(dirA)
			smA, err := cmdutils.NewStateManager("raft", "", ident, &cmdutils.Configs{Cluster: ccA, Raft: cfgA})
			if err != nil {
				panic(err)
			}
			var buf bytes.Buffer
			if err := smA.ExportState(&buf); err != nil {
				run.Violate("C14/export_error", "", "ExportState failed: %v", err)
				return
			}
			run.Probe("exports")
			// ... and import elsewhere, replacing whatever was there
			dataB := filepath.Join(dirB, "raft")
			if plan.Knob("target_has_state", 0) == 1 {
				// the target already holds a different pinset
				other := w.runSingle(dataB)
				if other.alive {
					apply(Step{Op: "pin", Pin: &PinSpec{Cid: 0, RMin: 1, RMax: 1, Allocs: []int{3}, Suffix: " old-target-state"}})
					apply(Step{Op: "pin", Pin: &PinSpec{Cid: 1, RMin: -1, RMax: -1, Suffix: " old-target-state"}})
					w.stopSingle()
					run.Probe("import_over_existing_state")
				}
			}
			if plan.Knob("target_has_state", 0) == 2 {
				// the target is what a killed peer leaves behind: log entries in
				// raft.db and no snapshot written at shutdown
				live := filepath.Join(dirB, "raft-live")
				other := w.runSingle(live)
				if other.alive {
					apply(Step{Op: "pin", Pin: &PinSpec{Cid: 0, RMin: 1, RMax: 1, Allocs: []int{3}, Suffix: " old-target-state"}})
					apply(Step{Op: "pin", Pin: &PinSpec{Cid: 1, RMin: -1, RMax: -1, Suffix: " old-target-state"}})
					apply(Step{Op: "pin", Pin: &PinSpec{Cid: 2, RMin: -1, RMax: -1, Suffix: " old-target-state"}})
					synctest.Wait()
					copyDir(live, dataB)
					w.stopSingle()
					os.RemoveAll(live)
					run.Probe("import_over_crashed_state")
				}
			}
			cfgB := mkcfg(dataB)
			ccB := &ipfscluster.Config{}
			ccB.Default()
			ccB.SetBaseDir(dirB)
			smB, err := cmdutils.NewStateManager("raft", "", ident, &cmdutils.Configs{Cluster: ccB, Raft: cfgB})
			if err != nil {
				panic(err)
			}
			if err := smB.ImportState(bytes.NewReader(buf.Bytes())); err != nil {
				run.Violate("C14/import_error", "", "ImportState of an exported pinset failed: %v", err)
				return
			}
			gotB, err := offlinePins(cfgB)
			if err != nil || !sameMap(gotB, expected) {
				run.Violate("C14/import_differs", "offline", "exported %s; after import the snapshot reads %s (err %v)", fmtState(expected), fmtState(gotB), err)
			}
			// 3. start a peer on the imported snapshot
			started := w.runSingle(dataB)
			if !started.alive {
				run.Violate("C14/cannot_start_on_import", "", "a peer cannot be started on the imported snapshot")
				return
			}
			live, err := w.stateOf(started)
			if err != nil || !sameMap(live, expected) {
				run.Violate("C14/import_differs", "started", "exported %s; a peer started on the imported snapshot serves %s (err %v)", fmtState(expected), fmtState(live), err)
			}
			run.Probe("started_on_import")
			w.stopSingle()
			// continue on folder A
			w.runSingle(dataA)
			run.Op()
		case "clean":
			// optionally add writes so that the folder holds a newer snapshot
			if w.cur[0] == nil || !w.cur[0].alive {
				w.runSingle(dataA)
			}
			for i := 0; i < s.Ms; i++ {
				gen++
				apply(Step{Op: "pin", Pin: &PinSpec{Cid: gen % len(w.cids), RMin: -1, RMax: -1, Suffix: fmt.Sprintf(" gen%d", gen)}})
			}
			syncExpected()
			w.stopSingle()
			cfgA := mkcfg(dataA)
			if plan.Knob("folder_slash", 0) == 1 {
				// the same folder, written with a trailing separator in the configuration
				cfgA.DataFolder = dataA + string(os.PathSeparator)
				run.Probe("data_folder_with_trailing_separator")
			}
			// a torn newest snapshot: the folder still holds Raft data (older snapshots,
			// the log) and is kept as a backup like any other, not deleted as "empty"
			tornFile, tornRel, tornOrig := "", "", []byte(nil)
			if s.B == 1 && !holes {
				tornFile = newestSnapshotState(dataA)
				if b, err := os.ReadFile(tornFile); tornFile != "" && err == nil && len(b) > 1 {
					tornOrig = b
					tornRel, _ = filepath.Rel(dataA, tornFile)
					if err := os.WriteFile(tornFile, b[:len(b)/2], 0o644); err != nil {
						panic(err)
					}
					run.Fault("snapshot_state_file_torn")
				} else {
					tornFile = ""
				}
			}
			before := listDir(dirA)
			beforeMarkers := readMarkers()
			if err := raft.CleanupRaft(cfgA); err != nil {
				run.Violate("C14/clean_error", "", "CleanupRaft failed: %v", err)
				return
			}
			run.Op()
			after := listDir(dirA)
			if holes {
				// What the statement asks whatever the numbering looked like: the data
				// folder is gone and recoverable as the newest backup; no older backup
				// is lost or overwritten except at most one (the oldest of those that
				// had to make room); every survivor is where it was or one further;
				// their order of age is kept.
				if _, err := os.Stat(dataA); err == nil {
					run.Violate("C14/rotation_wrong", "holes-not-cleaned", "the folder held %v; after cleaning the data folder is still there: %v", before, after)
				} else if got, err := offlinePins(mkcfg(filepath.Join(dirA, "raft.old.0"))); err != nil || !sameMap(got, expected) {
					run.Violate("C14/backup_not_recoverable", "holes", "the folder held %v; before cleaning the pinset was %s; raft.old.0 now yields %s (err %v); folders %v", before, fmtState(expected), fmtState(got), err, after)
				} else {
					now := readMarkers()
					where := map[string]int{}
					for i, m := range now {
						if m != "" {
							if _, dup := where[m]; dup {
								run.Violate("C14/rotation_wrong", "holes-dup", "backup %s exists twice after cleaning: %v", m, after)
							}
							where[m] = i
						}
					}
					lost := 0
					for i, m := range beforeMarkers {
						j, ok := where[m]
						if !ok {
							lost++
							continue
						}
						if j != i && j != i+1 {
							run.Violate("C14/rotation_wrong", "holes-moved", "backup %s was raft.old.%d and is now raft.old.%d (folders before %v, after %v)", m, i, j, before, after)
						}
						for i2, m2 := range beforeMarkers {
							if j2, ok2 := where[m2]; ok2 && i2 < i && j2 >= j {
								run.Violate("C14/rotation_wrong", "holes-order", "backups %s and %s changed their order of age (folders before %v, after %v)", m2, m, before, after)
							}
						}
					}
					if lost > 1 {
						run.Violate("C14/rotation_wrong", "holes-lost", "%d older backups disappeared in one cleaning (folders before %v, after %v)", lost, before, after)
					}
					run.Probe("rotations_checked")
					run.Probe("rotations_with_holes_checked")
				}
				gen++
				os.WriteFile(filepath.Join(dirA, "raft.old.0", "marker"), []byte(fmt.Sprintf("live%d", gen)), 0o644)
				copyDir(filepath.Join(dirA, "raft.old.0"), dataA)
				os.Remove(filepath.Join(dataA, "marker"))
				w.runSingle(dataA)
				continue
			}
			// the model: previous live folder is .old.0, older ones shifted, at most N kept
			backupsModel = append([]string{"live"}, backupsModel...)
			if len(backupsModel) > rotate {
				backupsModel = backupsModel[:rotate]
			}
			var want []string
			for i := range backupsModel {
				want = append(want, fmt.Sprintf("raft.old.%d", i))
			}
			sort.Strings(want)
			if strings.Join(after, ",") != strings.Join(want, ",") {
				run.Violate("C14/rotation_wrong", fmt.Sprintf("keep=%d", rotate), "with backups_rotate=%d the folder held %v; after cleaning it holds %v, expected %v", rotate, before, after, want)
			} else {
				// pre-existing backups kept their content in shifted positions
				for i, m := range backupsModel {
					if strings.HasPrefix(m, "pre") {
						b, _ := os.ReadFile(filepath.Join(dirA, fmt.Sprintf("raft.old.%d", i), "marker"))
						if string(b) != m {
							run.Violate("C14/rotation_wrong", "shift", "backup %s should now be raft.old.%d but that folder holds %q", m, i, string(b))
						}
					}
				}
				// the newest backup still yields the pre-clean pinset
				cfg0 := mkcfg(filepath.Join(dirA, "raft.old.0"))
				if tornFile != "" {
					// ... once the torn file is what it was: the backup holds it, cut short
					// as it was found, and everything else
					moved := filepath.Join(dirA, "raft.old.0", tornRel)
					if b, err := os.ReadFile(moved); err != nil || len(b) != len(tornOrig)/2 {
						run.Violate("C14/backup_not_recoverable", "torn", "the newest snapshot's state file was cut short before cleaning; the backup does not hold it as it was (%v, %d bytes, expected %d)", err, len(b), len(tornOrig)/2)
					}
					if err := os.WriteFile(moved, tornOrig, 0o644); err != nil {
						panic(err)
					}
					run.Probe("torn_snapshot_folder_backed_up")
				}
				got, err := offlinePins(cfg0)
				if err != nil || !sameMap(got, expected) {
					run.Violate("C14/backup_not_recoverable", "", "before cleaning the pinset was %s; the newest backup yields %s (err %v)", fmtState(expected), fmtState(got), err)
				}
				run.Probe("rotations_checked")
			}
			for i := range backupsModel {
				if backupsModel[i] == "live" {
					backupsModel[i] = "was-live"
				}
			}
			// start again from a copy of the newest backup so that later cleans have a snapshot to keep
			copyDir(filepath.Join(dirA, "raft.old.0"), dataA)
			w.runSingle(dataA)
		case "peerstore":
			w.stopSingle()
			w.peerstoreRoundTrip(uint64(s.Ms))
		}
	}
	w.stopSingle()
}

func (w *world) peerstoreRoundTrip(seed uint64) {
	run := w.run
	r := simkit.NewRng(seed)
	path := filepath.Join(w.base, "peerstore")
	hA := w.net.AddPeer(20)
	pmA := pstoremgr.New(context.Background(), hA, path)
	// addresses of 1-5 peers, ip and dns, several per peer, in a priority order
	np := r.Range(1, 5)
	var addrs []ma.Multiaddr
	var order []string
	for i := 0; i < np; i++ {
		pid := simkit.TestPeer(30 + i)
		order = append(order, pid.Pretty())
		na := r.Range(1, 3)
		dns := r.Chance(0.3)
		for j := 0; j < na; j++ {
			s := fmt.Sprintf("/ip4/10.%d.%d.%d/tcp/%d/p2p/%s", i, j, r.Range(1, 250), 9000+j, pid.Pretty())
			if dns {
				s = fmt.Sprintf("/dns4/host%d-%d.example.org/tcp/%d/p2p/%s", i, j, 9000+j, pid.Pretty())
			}
			a, err := ma.NewMultiaddr(s)
			if err != nil {
				panic(err)
			}
			addrs = append(addrs, a)
		}
	}
	if r.Chance(0.5) {
		// the file was written before, at a time when more peers were known (a
		// cluster that has shrunk since): this save replaces it
		h0 := w.net.AddPeer(22)
		pm0 := pstoremgr.New(context.Background(), h0, path)
		var old []ma.Multiaddr
		for i := 0; i < np+r.Range(1, 3); i++ {
			pid := simkit.TestPeer(40 + i)
			for j := 0; j < 3; j++ {
				a, _ := ma.NewMultiaddr(fmt.Sprintf("/dns4/some-rather-long-host-name-%d-%d.example.org/tcp/%d/p2p/%s", i, j, 9100+j, pid.Pretty()))
				old = append(old, a)
			}
		}
		pm0.ImportPeers(old, false, peerstore.PermanentAddrTTL)
		pm0.SavePeerstoreForPeers(h0.Peerstore().Peers())
		run.Probe("peerstore_saved_over_longer_file")
	}
	pmA.ImportPeers(addrs, false, peerstore.PermanentAddrTTL)
	if err := pmA.SavePeerstoreForPeers(hA.Peerstore().Peers()); err != nil {
		run.Violate("C14/peerstore_save_error", "", "SavePeerstoreForPeers failed: %v", err)
		return
	}
	raw, _ := os.ReadFile(path)
	var written []string
	for _, l := range strings.Split(string(raw), "\n") {
		if l != "" {
			written = append(written, l)
		}
	}
	// every imported address is in the file, peers in priority order
	var fileOrder []string
	for _, l := range written {
		pid := l[strings.LastIndex(l, "/")+1:]
		if len(fileOrder) == 0 || fileOrder[len(fileOrder)-1] != pid {
			fileOrder = append(fileOrder, pid)
		}
	}
	if strings.Join(fileOrder, ",") != strings.Join(order, ",") {
		run.Violate("C14/peerstore_priority_lost", "save", "peers were imported in priority order %v but the file lists them as %v", shortIDs(order), shortIDs(fileOrder))
	}
	for _, a := range addrs {
		found := false
		for _, l := range written {
			if l == a.String() {
				found = true
			}
		}
		if !found {
			run.Violate("C14/peerstore_address_lost", "save", "address %s was known but is not in the saved file", a)
		}
	}
	// and nothing else is: the file is what was saved, not what was there before
	known := map[string]bool{}
	for _, a := range addrs {
		known[a.String()] = true
	}
	for _, l := range written {
		if !known[l] {
			run.Violate("C14/peerstore_stale_lines", "", "%d addresses were saved but the file holds %d lines, among them %q which was not saved", len(addrs), len(written), l)
			break
		}
	}
	// malformed lines in between must be skipped, not fatal
	if r.Chance(0.6) {
		junk := []string{"", "garbage without slash", "/notaprotocol/xyz", "/ip4/999.1.1.1/tcp/1", "#comment", "/ip4/1.2.3.4/tcp/9096"}
		var mixed []string
		for _, l := range written {
			if r.Chance(0.4) {
				mixed = append(mixed, junk[r.Intn(len(junk))])
			}
			mixed = append(mixed, l)
		}
		mixed = append(mixed, junk[r.Intn(len(junk))])
		os.WriteFile(path, []byte(strings.Join(mixed, "\n")+"\n"), 0o644)
		run.Fault("malformed_peerstore_lines")
	}
	if r.Chance(0.3) {
		// a file edited by hand: no newline after the last line
		if b, err := os.ReadFile(path); err == nil && len(b) > 0 && b[len(b)-1] == '\n' {
			os.WriteFile(path, b[:len(b)-1], 0o644)
			run.Probe("peerstore_without_final_newline")
		}
	}
	hB := w.net.AddPeer(21)
	pmB := pstoremgr.New(context.Background(), hB, path)
	loaded := pmB.LoadPeerstore()
	var got []string
	for _, a := range loaded {
		if a != nil {
			got = append(got, a.String())
		}
	}
	// valid lines with a /p2p part, in file order
	var want []string
	for _, l := range written {
		want = append(want, l)
	}
	filtered := got[:0]
	for _, g := range got {
		if strings.Contains(g, "/p2p/") {
			filtered = append(filtered, g)
		}
	}
	if strings.Join(filtered, "\n") != strings.Join(want, "\n") {
		run.Violate("C14/peerstore_read_differs", "", "the file holds %d peer addresses %v; LoadPeerstore returned %v", len(want), want, filtered)
	}
	func() {
		defer func() {
			if r := recover(); r != nil {
				run.Violate("C14/peerstore_malformed_line_fatal", "panic", "loading a peerstore file with an unparsable line panicked (what NewCluster does at start-up): %v", r)
			}
		}()
		pmB.ImportPeersFromPeerstore(false, peerstore.PermanentAddrTTL)
	}()
	var backOrder []string
	for _, pi := range pmB.PeerInfos(hB.Peerstore().Peers()) {
		backOrder = append(backOrder, pi.ID.Pretty())
	}
	if strings.Join(backOrder, ",") != strings.Join(order, ",") {
		run.Violate("C14/peerstore_priority_lost", "load", "priority order written %v, read back %v", shortIDs(order), shortIDs(backOrder))
	}
	run.Probe("peerstore_round_trips")
	run.Op()
}

func shortIDs(xs []string) []string {
	out := make([]string, len(xs))
	for i, x := range xs {
		if len(x) > 5 {
			x = x[len(x)-5:]
		}
		out[i] = x
	}
	return out
}
