// Package raftsim runs real consensus/raft peers (ipfs-cluster's Consensus +
// raftWrapper + LogOp + dsstate over go-libp2p-raft, hashicorp/raft, BoltDB
// and the file snapshot store) on mocknet, with tmpfs data folders the
// simulator can copy (process kill) and recording datastores. Serves C01.
package raftsim

import (
	"bytes"
	"context"
	"encoding/json"
	"fmt"
	"os"
	"os/exec"
	"path/filepath"
	"reflect"
	"runtime"
	"sort"
	"strings"
	"sync"
	"testing"
	"testing/synctest"
	"time"
	"unsafe"

	hraft "github.com/hashicorp/raft"
	cid "github.com/ipfs/go-cid"
	ds "github.com/ipfs/go-datastore"
	dsq "github.com/ipfs/go-datastore/query"
	dssync "github.com/ipfs/go-datastore/sync"
	dshelp "github.com/ipfs/go-ipfs-ds-help"
	"github.com/ipfs/ipfs-cluster/api"
	"github.com/ipfs/ipfs-cluster/consensus/raft"
	"github.com/ipfs/ipfs-cluster/version"
	"github.com/libp2p/go-libp2p-core/host"
	peer "github.com/libp2p/go-libp2p-core/peer"
	rpc "github.com/libp2p/go-libp2p-gorpc"
	ma "github.com/multiformats/go-multiaddr"
	"github.com/ugorji/go/codec"

	"verif/simkit"
)

// ------------------------------------------------------------------ plan

type PinSpec struct {
	Cid     int      `json:"cid"`
	Type    int      `json:"type,omitempty"` // 0 data 1 meta 2 clusterdag 3 shard
	Direct  bool     `json:"direct,omitempty"`
	RMin    int      `json:"rmin"`
	RMax    int      `json:"rmax"`
	Allocs  []int    `json:"allocs,omitempty"`
	Origins int      `json:"origins,omitempty"`
	Meta    []string `json:"meta,omitempty"`
	ExpMs   int64    `json:"exp_ms,omitempty"` // absolute expiry (ms since the bubble epoch), 0 none
	Suffix  string   `json:"suffix,omitempty"`
	Update  int      `json:"update,omitempty"` // +1
	Ref     int      `json:"ref,omitempty"`    // +1
	Same    bool     `json:"same,omitempty"`   // submit again, unchanged, the pin last submitted for this CID
}

type Step struct {
	Op      string   `json:"op"` // pin unpin partition heal reset latency stall unstall kill restart stop start observe
	DelayMs int      `json:"delay_ms,omitempty"`
	Peer    int      `json:"peer,omitempty"` // -1 = the current leader
	Pin     *PinSpec `json:"pin,omitempty"`
	Group   []int    `json:"group,omitempty"`
	B       int      `json:"b,omitempty"`
	Ms      int      `json:"ms,omitempty"`
}

type H struct{}

func (H) Name() string { return "raftsim" }

func genPin(r *simkit.Rng, ncids, npeers int) *PinSpec {
	p := &PinSpec{Cid: r.Intn(ncids)}
	fp := [][2]int{{-1, -1}, {1, 1}, {1, 2}, {2, 3}, {3, 3}}[r.Intn(5)]
	p.RMin, p.RMax = fp[0], fp[1]
	p.Type = r.Pick(8, 1, 1, 1)
	p.Direct = r.Chance(0.25)
	if p.RMin > 0 {
		p.Allocs = r.Perm(6)[:r.Range(0, 4)]
	}
	p.Origins = r.Pick(4, 1, 1, 1)
	pool := []string{"a=1", "b=2", "k=v", "=empty key", "emptyval=", "ü=ñ"}
	for _, m := range pool {
		if r.Chance(0.2) {
			p.Meta = append(p.Meta, m)
		}
	}
	switch r.Pick(5, 2, 1) {
	case 1:
		p.ExpMs = int64(r.Range(1, 100000)) * 1000
	case 2:
		p.ExpMs = int64(r.Range(1, 100000))*1000 + int64(r.Range(1, 999))
	}
	if p.ExpMs > 0 && r.Chance(0.35) {
		// a date that passes while the plan runs, or has passed when the pin is
		// submitted: the log and every replay of it store the pin all the same
		// (expiry is acted upon elsewhere, by unpinning)
		p.ExpMs = int64(r.Range(1, 120)) * 1000
	}
	p.Suffix = []string{"", "", " ünï", " long name with spaces"}[r.Intn(4)]
	if r.Chance(0.15) {
		p.Update = 1 + r.Intn(ncids)
	}
	if p.Type != 0 && r.Chance(0.7) {
		p.Ref = 1 + r.Intn(ncids)
	}
	return p
}

func decodeStep(raw json.RawMessage) Step {
	var s Step
	if err := json.Unmarshal(raw, &s); err != nil {
		panic(err)
	}
	return s
}

func (H) Generate(prop, tier string, seed uint64) *simkit.Plan {
	if prop == "C14" {
		return genC14(tier, seed)
	}
	r := simkit.NewRng(seed)
	p := &simkit.Plan{Property: prop, Harness: "raftsim", Seed: seed, RTSeed: r.Uint64() % 1000}
	n := r.Pick(1, 2, 5, 2) + 1 // 1..4
	p.SetKnob("peers", int64(n))
	ncids := r.Range(2, 5)
	p.SetKnob("ncids", int64(ncids))
	hb := []int{50, 100, 200, 500, 1000}[r.Intn(5)]
	p.SetKnob("heartbeat_ms", int64(hb))
	p.SetKnob("commit_ms", int64([]int{5, 20, 50}[r.Intn(3)]))
	p.SetKnob("snap_threshold", int64([]int{2, 3, 4, 8, 64}[r.Intn(5)]))
	p.SetKnob("snap_interval_ms", int64([]int{300, 500, 2000, 30000}[r.Intn(4)]))
	p.SetKnob("trailing", int64([]int{0, 1, 2, 4, 32}[r.Intn(5)]))
	p.SetKnob("commit_retries", int64(r.Intn(3)))
	p.SetKnob("wait_leader_ms", int64([]int{3000, 5000, 15000}[r.Intn(3)]))
	lat := []int{1, 5, 20, 60}[r.Intn(4)]
	for lat*6 > hb { // a heartbeat timeout below a few round trips is a misconfiguration, not a fault
		lat /= 2
	}
	if lat < 1 {
		lat = 1
	}
	p.SetKnob("latency_ms", int64(lat))
	nsteps := r.Range(8, 45)
	if tier == "thorough" && r.Chance(0.3) {
		nsteps = r.Range(40, 90)
	}
	faultBias := r.Float() * 0.45
	storm := -1
	if r.Chance(0.3) {
		storm = r.Intn(nsteps)
	}
	again := -1
	if r.Chance(0.3) {
		again = r.Intn(nsteps)
	}
	down := map[int]string{} // peer -> "killed" | "stopped"
	parted := false
	for i := 0; i < nsteps; i++ {
		st := Step{DelayMs: r.Pick(5, 3, 1) * r.Range(0, 4*hb)}
		if r.Float() < faultBias && n > 1 {
			switch r.Pick(4, 3, 2, 2, 2, 3, 3, 2, 2) {
			case 0:
				st.Op = "partition"
				k := r.Range(1, n-1)
				st.Group = r.Perm(n)[:k]
				if r.Chance(0.3) {
					st.Group = []int{-1} // isolate the leader
				}
				parted = true
			case 1:
				st.Op = "heal"
				parted = false
			case 2:
				st.Op = "reset"
				st.Peer, st.B = r.Intn(n), r.Intn(n)
			case 3:
				st.Op = "latency"
				st.Peer, st.B, st.Ms = r.Intn(n), r.Intn(n), []int{1, 10, 50, 200, 400}[r.Intn(5)]
			case 4:
				st.Op = "stall"
				st.Peer = r.Intn(n)
				st.Ms = r.Range(2000, 20000)
			case 5:
				st.Op = "kill"
				st.Peer = r.Intn(n)
				if r.Chance(0.4) {
					st.Peer = -1
				}
				if st.Peer >= 0 {
					if _, d := down[st.Peer]; d {
						st.Op = "restart"
						delete(down, st.Peer)
					} else {
						down[st.Peer] = "killed"
					}
				}
			case 6:
				// bring somebody back
				if len(down) > 0 {
					for _, q := range r.Perm(n) {
						if _, d := down[q]; d {
							st.Op, st.Peer = "restart", q
							delete(down, q)
							break
						}
					}
				} else {
					st.Op = "observe"
				}
			case 7:
				st.Op = "stop"
				st.Peer = r.Intn(n)
				if _, d := down[st.Peer]; d {
					st.Op = "restart"
					delete(down, st.Peer)
				} else {
					down[st.Peer] = "stopped"
				}
			case 8:
				st.Op = "snapshot" // force a snapshot on a peer (what SnapshotInterval does, at a chosen instant)
				st.Peer = r.Intn(n)
			}
		} else {
			switch r.Pick(55, 25, 12, 8) {
			case 0:
				st.Op = "pin"
				st.Peer = r.Intn(n)
				st.Pin = genPin(r, ncids, n)
				if r.Chance(0.1) {
					st.Pin.Same = true
				}
			case 1:
				st.Op = "unpin"
				st.Peer = r.Intn(n)
				st.Pin = &PinSpec{Cid: r.Intn(ncids), RMin: -1, RMax: -1}
			case 2:
				st.Op = "observe"
			case 3:
				st.Op = "offline" // OfflineState of a stopped peer
				st.Peer = r.Intn(n)
			}
		}
		p.AddStep(st)
		// directed: pin, unpin through the leader, then the very same pin again at
		// some peer while the unpin is still spreading
		if again == i {
			c := r.Intn(ncids)
			pp := genPin(r, ncids, n)
			pp.Cid = c
			p.AddStep(Step{Op: "pin", Peer: -1, Pin: pp})
			p.AddStep(Step{Op: "unpin", Peer: -1, DelayMs: r.Range(0, 2*hb), Pin: &PinSpec{Cid: c, RMin: -1, RMax: -1}})
			p.AddStep(Step{Op: "pin", Peer: r.Intn(n), DelayMs: r.Pick(3, 2, 1) * r.Range(0, hb/4+1), Pin: &PinSpec{Cid: c, Same: true, RMin: -1, RMax: -1}})
		}
		// directed: a peer is shut down while clients keep writing through it
		// (writes arrive before, during and after the Shutdown call); then its
		// offline state is read and it is started again
		if storm == i {
			who := -1 // the leader
			if n == 1 || r.Chance(0.3) {
				who = r.Intn(n)
			}
			if _, d := down[who]; !d && (who >= 0 || len(down) == 0) {
				k := r.Range(3, 12)
				at := r.Intn(k)
				for j := 0; j < k; j++ {
					if j == at {
						p.AddStep(Step{Op: "stop_async", Peer: who, Ms: r.Intn(3)})
					}
					p.AddStep(Step{Op: "pin", Peer: -2, DelayMs: r.Pick(3, 1, 1), Pin: genPin(r, ncids, n)})
				}
				p.AddStep(Step{Op: "stop_join"})
				p.AddStep(Step{Op: "offline", Peer: -2})
				p.AddStep(Step{Op: "restart", Peer: -2, DelayMs: r.Range(0, 2*hb)})
				if r.Chance(0.5) {
					p.SetKnob("lock_yield", int64([]int{30, 100, 300}[r.Intn(3)]))
				}
			}
		}
	}
	_ = parted
	return p
}

// ------------------------------------------------------------------ recording datastore

type token struct {
	Put     bool
	Cid     string
	Nonce   string
	Render  string // normal form of the stored pin
	Restore bool
	Seq     int
	Pin     *api.Pin
}

type recDS struct {
	inner ds.Datastore
	mu    sync.Mutex
	w     *world
	who   string
	toks  []token
}

func inRestore() bool {
	pc := make([]uintptr, 24)
	n := runtime.Callers(3, pc)
	fr := runtime.CallersFrames(pc[:n])
	for {
		f, more := fr.Next()
		if strings.HasSuffix(f.Function, "dsstate.(*State).Unmarshal") {
			return true
		}
		if !more {
			return false
		}
	}
}

func keyCid(k ds.Key) string {
	b, err := dshelp.BinaryFromDsKey(ds.NewKey(k.BaseNamespace()))
	if err != nil {
		return "badkey:" + k.String()
	}
	c, err := cid.Cast(b)
	if err != nil {
		return "badkey:" + k.String()
	}
	return c.String()
}

func (d *recDS) Put(k ds.Key, v []byte) error {
	t := token{Put: true, Cid: keyCid(k), Restore: inRestore()}
	p := &api.Pin{}
	if err := p.ProtoUnmarshal(v); err == nil {
		if c, err := cid.Decode(t.Cid); err == nil {
			p.Cid = c
		}
		t.Pin = p
		t.Nonce = nonceOf(p.Name)
		t.Render = render(p)
	}
	t.Seq = d.w.run.Stamp()
	d.mu.Lock()
	d.toks = append(d.toks, t)
	d.mu.Unlock()
	return d.inner.Put(k, v)
}

func (d *recDS) Delete(k ds.Key) error {
	t := token{Cid: keyCid(k), Restore: inRestore(), Seq: d.w.run.Stamp()}
	d.mu.Lock()
	d.toks = append(d.toks, t)
	d.mu.Unlock()
	return d.inner.Delete(k)
}
func (d *recDS) Get(k ds.Key) ([]byte, error)  { return d.inner.Get(k) }
func (d *recDS) Has(k ds.Key) (bool, error)    { return d.inner.Has(k) }
func (d *recDS) GetSize(k ds.Key) (int, error) { return d.inner.GetSize(k) }
func (d *recDS) Query(q dsq.Query) (dsq.Results, error) {
	if inRestore() { // a snapshot restore begins (also when the snapshot and the store are empty)
		d.mu.Lock()
		d.toks = append(d.toks, token{Restore: true, Cid: "(restore)", Seq: d.w.run.Stamp()})
		d.mu.Unlock()
		d.w.run.Probe("snapshot_restores_seen")
	}
	return d.inner.Query(q)
}
func (d *recDS) Sync(k ds.Key) error { return d.inner.Sync(k) }
func (d *recDS) Close() error        { return d.inner.Close() }
func (d *recDS) tokens() []token {
	d.mu.Lock()
	defer d.mu.Unlock()
	return append([]token{}, d.toks...)
}

func nonceOf(name string) string {
	if i := strings.Index(name, " "); i > 0 {
		return name[:i]
	}
	return name
}

func render(p *api.Pin) string {
	var md []string
	for k, v := range p.Metadata {
		md = append(md, k+"="+v)
	}
	sort.Strings(md)
	var og []string
	for _, o := range p.Origins {
		og = append(og, o.String())
	}
	al := api.PeersToStrings(p.Allocations)
	ref := ""
	if p.Reference != nil {
		ref = p.Reference.String()
	}
	upd := ""
	if p.PinUpdate.Defined() {
		upd = p.PinUpdate.String()
	}
	exp := int64(0)
	if !p.ExpireAt.IsZero() {
		exp = p.ExpireAt.Unix()
	}
	return fmt.Sprintf("%s name=%q type=%d depth=%d mode=%d rf=%d/%d allocs=%v origins=%v meta=%v exp=%d ref=%s upd=%s shard=%d", p.Cid, p.Name, p.Type, p.MaxDepth, p.Mode, p.ReplicationFactorMin, p.ReplicationFactorMax, al, og, md, exp, ref, upd, p.ShardSize)
}

// ------------------------------------------------------------------ RPC services

type trackCall struct {
	Goid   uint64 // goroutine id of the asynchronous local RPC: ids are handed out in creation order on one P
	Track  bool
	Cid    string
	Nonce  string
	Render string
	Seq    int
}

type trackerSvc struct {
	mu    sync.Mutex
	calls []trackCall
	w     *world
}

func (t *trackerSvc) Track(ctx context.Context, in *api.Pin, out *struct{}) error {
	t.mu.Lock()
	t.calls = append(t.calls, trackCall{Track: true, Cid: in.Cid.String(), Nonce: nonceOf(in.Name), Render: render(in), Seq: t.w.run.Stamp()})
	t.mu.Unlock()
	return nil
}
func (t *trackerSvc) Untrack(ctx context.Context, in *api.Pin, out *struct{}) error {
	t.mu.Lock()
	t.calls = append(t.calls, trackCall{Goid: goid(), Cid: in.Cid.String(), Nonce: nonceOf(in.Name), Seq: t.w.run.Stamp()})
	t.mu.Unlock()
	return nil
}

// goid reads the current goroutine's id. LogOp.ApplyTo starts one goroutine per
// Untrack call, in apply order; the scheduler may run them in another order,
// the ids keep the creation order (GOMAXPROCS=1).
func goid() uint64 {
	var buf [64]byte
	n := runtime.Stack(buf[:], false)
	f := strings.Fields(string(buf[:n]))
	if len(f) < 2 {
		return 0
	}
	var id uint64
	fmt.Sscanf(f[1], "%d", &id)
	return id
}

type consSvc struct{ c *raft.Consensus }

func (s *consSvc) LogPin(ctx context.Context, in *api.Pin, out *struct{}) error {
	return s.c.LogPin(ctx, in)
}
func (s *consSvc) LogUnpin(ctx context.Context, in *api.Pin, out *struct{}) error {
	return s.c.LogUnpin(ctx, in)
}
func (s *consSvc) AddPeer(ctx context.Context, in peer.ID, out *struct{}) error {
	return s.c.AddPeer(ctx, in)
}
func (s *consSvc) RmPeer(ctx context.Context, in peer.ID, out *struct{}) error {
	return s.c.RmPeer(ctx, in)
}

// ------------------------------------------------------------------ world

type inc struct {
	forced    bool // its Shutdown never returned and Raft was stopped directly
	peer, gen int
	host      host.Host
	dir       string
	store     *recDS
	cons      *raft.Consensus
	cfg       *raft.Config
	tracker   *trackerSvc
	alive     bool
	graceful  bool // stopped with Shutdown()
	killedAt  time.Time
	dead      chan struct{} // closed when the killed process has fully stopped
}

type opRec struct {
	Want      string // normal form of the pin as submitted
	Pin       bool
	Cid       string
	Nonce     string
	Peer      int
	InvokeSeq int
	ReturnSeq int
	Err       string
	Done      bool
}

type world struct {
	lastPin   map[int]*api.Pin // per CID index: the pin last submitted
	stormPeer int
	stormDone chan struct{}
	ambiguous bool // the committed sequence could not be reconstructed unambiguously: states are not judged against it
	run       *simkit.Run
	plan      *simkit.Plan
	net       *simkit.Net
	n         int
	cids      []cid.Cid
	base      string
	cur       []*inc // current incarnation per peer (may be dead)
	all       []*inc // every incarnation
	ops       []*opRec
	mu        sync.Mutex
	nonce     int
	pend      int
	lastK     map[*inc]int
	rotate    int
}

func (w *world) ids() []peer.ID {
	var out []peer.ID
	for i := 0; i < w.n; i++ {
		out = append(out, simkit.TestPeer(i))
	}
	return out
}

func (w *world) mkcfg(dir string) *raft.Config {
	p := w.plan
	cfg := &raft.Config{}
	cfg.Default()
	cfg.DataFolder = dir
	cfg.InitPeerset = w.ids()
	hb := time.Duration(p.Knob("heartbeat_ms", 200)) * time.Millisecond
	cfg.RaftConfig.HeartbeatTimeout = hb
	cfg.RaftConfig.ElectionTimeout = hb
	cfg.RaftConfig.LeaderLeaseTimeout = hb
	cfg.RaftConfig.CommitTimeout = time.Duration(p.Knob("commit_ms", 20)) * time.Millisecond
	cfg.RaftConfig.SnapshotThreshold = uint64(p.Knob("snap_threshold", 8))
	cfg.RaftConfig.SnapshotInterval = time.Duration(p.Knob("snap_interval_ms", 2000)) * time.Millisecond
	cfg.RaftConfig.TrailingLogs = uint64(p.Knob("trailing", 4))
	cfg.CommitRetries = int(p.Knob("commit_retries", 1))
	cfg.CommitRetryDelay = 100 * time.Millisecond
	cfg.WaitForLeaderTimeout = time.Duration(p.Knob("wait_leader_ms", 5000)) * time.Millisecond
	cfg.NetworkTimeout = 3 * time.Second
	cfg.BackupsRotate = 3
	if w.rotate > 0 {
		cfg.BackupsRotate = w.rotate
	}
	return cfg
}

// start creates a new incarnation of peer i on directory dir.
func (w *world) start(i int, dir string, newHost bool) *inc {
	gen := 0
	if w.cur[i] != nil {
		gen = w.cur[i].gen + 1
	}
	n := &inc{peer: i, gen: gen, dir: dir, alive: true}
	if newHost || w.cur[i] == nil {
		n.host = w.net.AddPeer(i)
	} else {
		n.host = w.cur[i].host
	}
	n.store = &recDS{inner: dssync.MutexWrap(ds.NewMapDatastore()), w: w, who: fmt.Sprintf("p%d.%d", i, gen)}
	n.cfg = w.mkcfg(dir)
	cons, err := raft.NewConsensus(n.host, n.cfg, n.store, false)
	if err != nil {
		w.run.Ev(n.store.who, "start.fail", "%v", err)
		n.alive = false
		w.cur[i] = n
		w.all = append(w.all, n)
		return n
	}
	n.cons = cons
	n.tracker = &trackerSvc{w: w}
	srv := rpc.NewServer(n.host, version.RPCProtocol)
	if err := srv.RegisterName("Consensus", &consSvc{c: cons}); err != nil {
		panic(err)
	}
	if err := srv.RegisterName("PinTracker", n.tracker); err != nil {
		panic(err)
	}
	cons.SetClient(rpc.NewClientWithServer(n.host, version.RPCProtocol, srv))
	w.cur[i] = n
	w.all = append(w.all, n)
	w.run.Ev(n.store.who, "start", "dir=%s", filepath.Base(dir))
	return n
}

func copyDir(src, dst string) {
	os.RemoveAll(dst)
	if out, err := exec.Command("cp", "-a", src, dst).CombinedOutput(); err != nil {
		panic(fmt.Sprintf("cp: %v %s", err, out))
	}
}

func (w *world) leader() int {
	for _, n := range w.cur {
		if n != nil && n.alive {
			if l, err := n.cons.Leader(context.Background()); err == nil {
				if i := w.net.Index(l); i >= 0 && w.cur[i].alive {
					return i
				}
			}
		}
	}
	return -1
}

func (w *world) mkPin(s *PinSpec) *api.Pin {
	if s.Same {
		if old := w.lastPin[s.Cid%len(w.cids)]; old != nil {
			cp := *old
			w.run.Probe("identical_pin_submitted_again")
			return &cp
		}
	}
	p := w.mkPinNew(s)
	if w.lastPin == nil {
		w.lastPin = map[int]*api.Pin{}
	}
	cp := *p
	w.lastPin[s.Cid%len(w.cids)] = &cp
	return p
}

func (w *world) mkPinNew(s *PinSpec) *api.Pin {
	w.nonce++
	c := w.cids[s.Cid%len(w.cids)]
	p := api.PinCid(c)
	p.Name = fmt.Sprintf("n%d%s", w.nonce, s.Suffix)
	p.Type = []api.PinType{api.DataType, api.MetaType, api.ClusterDAGType, api.ShardType}[s.Type%4]
	if s.Direct {
		p.Mode, p.MaxDepth = api.PinModeDirect, 0
	}
	if p.Type == api.ShardType {
		p.Mode, p.MaxDepth = api.PinModeRecursive, 1
	}
	p.ReplicationFactorMin, p.ReplicationFactorMax = s.RMin, s.RMax
	for _, a := range s.Allocs {
		p.Allocations = append(p.Allocations, simkit.TestPeer(a))
	}
	for i := 0; i < s.Origins; i++ {
		a, _ := ma.NewMultiaddr(fmt.Sprintf("/ip4/172.16.0.%d/tcp/4001/p2p/%s", i+1, simkit.TestPeer(500+i).Pretty()))
		p.Origins = append(p.Origins, a)
	}
	if len(s.Meta) > 0 {
		p.Metadata = map[string]string{}
		for _, kv := range s.Meta {
			x := strings.SplitN(kv, "=", 2)
			p.Metadata[x[0]] = x[1]
		}
	}
	if s.ExpMs > 0 {
		p.ExpireAt = time.Date(2000, 1, 1, 0, 0, 0, 0, time.UTC).Add(time.Duration(s.ExpMs) * time.Millisecond)
	}
	if s.Update > 0 {
		p.PinUpdate = w.cids[(s.Update-1)%len(w.cids)]
	}
	if s.Ref > 0 {
		r := w.cids[(s.Ref-1)%len(w.cids)]
		p.Reference = &r
	}
	return p
}

func (H) Execute(t *testing.T, plan *simkit.Plan, run *simkit.Run) {
	run.Begin()
	n := int(plan.Knob("peers", 3))
	w := &world{run: run, plan: plan, n: n, cur: make([]*inc, n), lastK: map[*inc]int{}, stormPeer: -1}
	base := os.Getenv("VERIF_TMP")
	if base == "" {
		base = "/dev/shm"
	}
	w.base = filepath.Join(base, fmt.Sprintf("raft-%d-%s", os.Getpid(), plan.Digest()))
	os.RemoveAll(w.base)
	os.MkdirAll(w.base, 0o755)
	defer os.RemoveAll(w.base)
	for i := 0; i < int(plan.Knob("ncids", 3)); i++ {
		w.cids = append(w.cids, simkit.TestCid(i))
	}
	w.net = simkit.NewNet(run, time.Duration(plan.Knob("latency_ms", 5))*time.Millisecond)
	if plan.Property == "C14" {
		defer func() {
			for _, x := range w.all {
				if x.alive && x.cons != nil {
					w.shutdownBounded(x)
				}
			}
			w.net.Close()
			synctest.Wait()
		}()
		execC14(w)
		return
	}
	for i := 0; i < n; i++ {
		w.start(i, filepath.Join(w.base, fmt.Sprintf("p%d-g0", i)), true)
	}
	w.net.ConnectAll()
	defer func() {
		for _, x := range w.all {
			if x.alive && x.cons != nil {
				w.shutdownBounded(x)
			}
		}
		w.net.Close()
		synctest.Wait()
	}()
	hb := time.Duration(plan.Knob("heartbeat_ms", 200)) * time.Millisecond
	time.Sleep(3*hb + 2*time.Second) // leader election

	stalled := map[int]bool{}
	for _, raw := range plan.Steps {
		var s Step
		if err := json.Unmarshal(raw, &s); err != nil {
			panic(err)
		}
		if s.DelayMs > 0 {
			time.Sleep(time.Duration(s.DelayMs) * time.Millisecond)
		}
		run.Step()
		if w.stormDone == nil {
			run.AbandonIfWallOver() // (not between stop_async and stop_join: the stopper goroutine is still at work)
		}
		pi := s.Peer
		if pi == -2 { // the peer of the storm in progress
			if w.stormPeer < 0 {
				continue
			}
			pi = w.stormPeer
		}
		if pi < 0 {
			pi = w.leader()
			if pi < 0 {
				if s.Op == "stop_async" {
					w.stormPeer = -1
				}
				continue
			}
		}
		pi = pi % n
		switch s.Op {
		case "pin", "unpin":
			w.submit(pi, s)
		case "partition":
			g := s.Group
			if len(g) == 1 && g[0] == -1 {
				l := w.leader()
				if l < 0 {
					continue
				}
				g = []int{l}
				run.Probe("leader_isolated")
			}
			var rest []int
			for i := 0; i < n; i++ {
				in := false
				for _, x := range g {
					if x%n == i {
						in = true
					}
				}
				if !in {
					rest = append(rest, i)
				}
			}
			w.net.Partition(g, rest)
		case "heal":
			w.net.Heal()
		case "reset":
			if pi != s.B%n {
				w.net.Reset(pi, s.B%n)
			}
		case "latency":
			if pi != s.B%n {
				w.net.SetLatency(pi, s.B%n, time.Duration(s.Ms)*time.Millisecond)
			}
		case "stall":
			for j := 0; j < n; j++ {
				if j != pi {
					w.net.SetLatency(pi, j, time.Duration(s.Ms)*time.Millisecond)
				}
			}
			stalled[pi] = true
			run.Fault("stall")
		case "kill":
			w.kill(pi)
		case "stop":
			w.stop(pi)
		case "stop_async":
			w.stormPeer = pi
			nd := w.cur[pi]
			if !nd.alive {
				w.stormPeer = -1
				break
			}
			done := make(chan struct{})
			w.stormDone = done
			run.Probe("stopped_while_clients_write")
			go func() {
				time.Sleep(time.Duration(s.Ms) * time.Millisecond)
				w.stopNoWait(pi) // (no quiescence wait here: only the plan's goroutine may wait)
				close(done)
			}()
		case "stop_join":
			if w.stormDone != nil {
				<-w.stormDone
				w.stormDone = nil
				synctest.Wait()
			}
		case "restart", "start":
			w.restart(pi)
		case "snapshot":
			// nothing to call from outside: raft snapshots on its own schedule
			// (SnapshotInterval/Threshold knobs); let one interval pass here
			time.Sleep(time.Duration(plan.Knob("snap_interval_ms", 2000)) * time.Millisecond)
		case "offline":
			w.offline(pi)
		case "observe":
			synctest.Wait()
			w.observe("mid", false)
		}
	}
	// ---- end of faults: heal, bring everybody back, liveness budget
	w.net.Heal()
	for i := 0; i < n; i++ {
		for j := i + 1; j < n; j++ {
			w.net.SetLatency(i, j, time.Duration(plan.Knob("latency_ms", 5))*time.Millisecond)
		}
	}
	for i := 0; i < n; i++ {
		if !w.cur[i].alive {
			w.restart(i)
		}
	}
	w.net.ConnectAll()
	// a fresh write must commit and reach everybody within the budget. The budget
	// covers the slowest legitimate recovery: a leader that kept failing to reach a
	// peer backs off (hashicorp/raft: up to 10ms*2^12 = 41 s between attempts) while
	// that peer raises its term and is refused votes; when the leader reaches it
	// the higher term unseats the leader and an election follows.
	deadline := time.Now().Add(120 * time.Second)
	var fresh *opRec
	for time.Now().Before(deadline) {
		time.Sleep(2 * time.Second)
		run.AbandonIfWallOver()
		w.mu.Lock()
		pend := w.pend
		w.mu.Unlock()
		if fresh == nil {
			l := w.leader()
			if l >= 0 {
				fresh = w.submit(l, Step{Op: "pin", Pin: &PinSpec{Cid: 0, RMin: -1, RMax: -1, Suffix: " final"}})
			}
			continue
		}
		if fresh.Done && fresh.Err != "" {
			fresh = nil // try again within the budget
			continue
		}
		if fresh.Done && pend == 0 && w.converged() {
			break
		}
		// A replica in hashicorp/raft's snapshot-install loop (below) never
		// converges, and every turn of the loop is a full restore: 120 simulated
		// seconds of it are tens of thousands of restores and a minute of real
		// time. Once the fresh write has committed nothing that is judged depends
		// on waiting longer (how fast a replica catches up is not a clause), so the
		// wait ends as soon as the loop is unmistakable; where the write has not
		// committed the wait goes on until the loop has turned 2000 times in a row.
		if b := w.installBursts(); (b >= 50 && fresh.Done && pend == 0) || b >= 2000 {
			run.Probe("final_wait_cut_short_snapshot_install_loop")
			break
		}
	}
	synctest.Wait()
	if (fresh == nil || !fresh.Done || fresh.Err != "") && w.installLoop() {
		// hashicorp/raft v1.1.1: a follower that holds uncommitted entries from its
		// time as a cut-off leader beyond the index of the snapshot it is sent, and
		// whose log was compacted up to that index (TrailingLogs smaller than that
		// suffix), rejects every AppendEntries ("previous log not found") and is
		// sent the same snapshot again, for ever; leadership keeps changing. Nothing
		// in ipfs-cluster takes part in that loop: progress is not demanded then.
		run.Probe("liveness_not_judged_snapshot_install_loop")
	} else if fresh == nil || !fresh.Done || fresh.Err != "" {
		e := "never submitted (no leader)"
		if fresh != nil {
			e = fmt.Sprintf("done=%v err=%q", fresh.Done, fresh.Err)
		}
		run.Violate("C01/liveness_no_commit", "", "120 simulated seconds after the last fault was healed a fresh write has not committed: %s", e)
	}
	w.observe("final", true)
	w.judgeHistory()
}

// installLoop: some running replica's last writes are six or more snapshot
// restores in a row with nothing applied in between.
func (w *world) installLoop() bool { return w.installBursts() >= 6 }

// installBursts: the largest number of snapshot restores in a row, with nothing
// applied in between, that the writes of a running replica end in.
func (w *world) installBursts() int {
	most := 0
	for _, nd := range w.cur {
		if nd == nil || !nd.alive || nd.store == nil {
			continue
		}
		bursts := 0
		toks := nd.store.tokens()
		for i := len(toks) - 1; i >= 0; i-- {
			if !toks[i].Restore {
				break
			}
			if toks[i].Cid == "(restore)" {
				bursts++
			}
		}
		if bursts > most {
			most = bursts
		}
	}
	return most
}

// logCodecOK puts the operation through the exact serialisation boundary of
// the Raft log (go-libp2p-raft: msgpack encode on the leader, msgpack decode
// with ErrorIfNoField into a LogOp on every replica).
func logCodecOK(pin *api.Pin) error {
	op := &raft.LogOp{Cid: pin, Type: raft.LogOpPin}
	var buf bytes.Buffer
	if err := codec.NewEncoder(&buf, &codec.MsgpackHandle{}).Encode(op); err != nil {
		return err
	}
	h := &codec.MsgpackHandle{}
	h.ErrorIfNoField = true
	return codec.NewDecoder(bytes.NewBuffer(buf.Bytes()), h).Decode(&raft.LogOp{})
}

func (w *world) submit(pi int, s Step) *opRec {
	nd := w.cur[pi]
	if nd == nil || !nd.alive {
		return nil
	}
	pin := w.mkPin(s.Pin)
	isPin := s.Op == "pin"
	if len(pin.Origins) > 0 {
		w.run.Probe("pin_with_origins")
		if err := logCodecOK(pin); err != nil {
			// Known finding: such an entry cannot be decoded by any replica's FSM
			// (it is dropped, the FSM is marked inconsistent and the half-decoded
			// pin left in the reused LogOp makes the next Apply panic). Report it
			// and keep exploring with the origins stripped.
			w.run.Violate("C01/pin_with_origins_breaks_replication", "origins", "a pin with %d origin(s) does not survive the Raft log encoding: %v", len(pin.Origins), err)
			pin.Origins = nil
		}
	}
	rec := &opRec{Pin: isPin, Cid: pin.Cid.String(), Nonce: nonceOf(pin.Name), Peer: pi, Want: render(pin)}
	w.mu.Lock()
	w.ops = append(w.ops, rec)
	w.pend++
	w.mu.Unlock()
	w.run.Op()
	rec.InvokeSeq = w.run.Ev("client", "invoke", "%s %s at p%d.%d %s", s.Op, rec.Nonce, pi, nd.gen, short(pin.Cid))
	go func() {
		var err error
		if isPin {
			err = nd.cons.LogPin(context.Background(), pin)
		} else {
			err = nd.cons.LogUnpin(context.Background(), pin)
		}
		if err != nil {
			rec.Err = err.Error()
		}
		rec.ReturnSeq = w.run.Ev("client", "return", "%s %s -> %v", s.Op, rec.Nonce, err)
		w.mu.Lock()
		rec.Done = true
		w.pend--
		w.mu.Unlock()
	}()
	return rec
}

func short(c cid.Cid) string {
	s := c.String()
	return s[len(s)-6:]
}

func (w *world) kill(pi int) {
	nd := w.cur[pi]
	if !nd.alive {
		return
	}
	synctest.Wait() // a consistent process-kill image: nobody is inside a write
	w.run.Fault("kill")
	if l := w.leader(); l == pi {
		w.run.Probe("leader_killed")
	}
	w.mu.Lock()
	if w.pend > 0 {
		w.run.Probe("killed_with_call_in_flight")
	}
	w.mu.Unlock()
	w.net.Kill(pi)
	next := filepath.Join(w.base, fmt.Sprintf("p%d-g%d", pi, nd.gen+1))
	copyDir(nd.dir, next)
	nd.alive = false
	nd.killedAt = time.Now()
	w.run.Ev(nd.store.who, "kill", "")
	// The old process is gone: close its libp2p host at once (mocknet would
	// otherwise let it dial through the links of its successor, which has the
	// same peer ID) and let its goroutines wind down in the background; they
	// only touch the abandoned directory.
	nd.host.Close()
	nd.dead = make(chan struct{})
	go func() {
		nd.cons.Shutdown(context.Background())
		close(nd.dead)
	}()
}

// shutdownBounded ends a peer at the end of a plan. Consensus.Shutdown waits for
// commits in flight; hashicorp/raft v1.1.1 can leave an Apply future unanswered
// for ever (seen after leadership changes during a partition), and then Shutdown
// never returns while the Raft timers keep the simulated clock running. That is
// recorded (probe) and the Raft instance is stopped directly so that the run ends.
func (w *world) shutdownBounded(x *inc) bool {
	done := make(chan struct{})
	go func() { x.cons.Shutdown(context.Background()); close(done) }()
	select {
	case <-done:
		return true
	case <-time.After(2 * time.Minute):
	}
	w.run.Probe("final_shutdown_stuck_behind_a_commit")
	w.run.Ev(x.store.who, "shutdown.stuck", "Shutdown has not returned after 2 simulated minutes: stopping Raft directly")
	defer func() { recover() }()
	rw := reflect.ValueOf(x.cons).Elem().FieldByName("raft")
	rw = reflect.NewAt(rw.Type(), unsafe.Pointer(rw.UnsafeAddr())).Elem()
	in := rw.Elem().FieldByName("raft")
	in = reflect.NewAt(in.Type(), unsafe.Pointer(in.UnsafeAddr())).Elem()
	if r, ok := in.Interface().(*hraft.Raft); ok && r != nil {
		f := r.Shutdown()
		fd := make(chan struct{})
		go func() { f.Error(); close(fd) }()
		select {
		case <-fd:
		case <-time.After(time.Minute):
		}
	}
	// and release the log store's file lock, or a successor on the same folder
	// would wait for it in a real system call
	bdb := rw.Elem().FieldByName("boltdb")
	bdb = reflect.NewAt(bdb.Type(), unsafe.Pointer(bdb.UnsafeAddr())).Elem()
	if c, ok := bdb.Interface().(interface{ Close() error }); ok && !bdb.IsNil() {
		c.Close()
	}
	return false
}

func (w *world) stop(pi int) {
	w.stopNoWait(pi)
	synctest.Wait()
}

func (w *world) stopNoWait(pi int) {
	nd := w.cur[pi]
	if !nd.alive {
		return
	}
	w.run.Fault("stop")
	w.run.Ev(nd.store.who, "stop", "")
	if !w.shutdownBounded(nd) {
		// stopped by force: no shutdown snapshot was taken, nothing to read offline
		nd.forced = true
	}
	nd.alive = false
	nd.graceful = true
}

func (w *world) restart(pi int) {
	nd := w.cur[pi]
	if nd.alive {
		return
	}
	w.run.Fault("restart")
	dir := nd.dir
	if !nd.graceful {
		dir = filepath.Join(w.base, fmt.Sprintf("p%d-g%d", pi, nd.gen+1))
	}
	if nd.graceful {
		w.net.HealPeer(pi)
	} else {
		// the successor shares the peer ID: the old process must be gone first
		if nd.dead != nil {
			<-nd.dead
		}
		w.net.Uncut(pi)
	}
	nn := w.start(pi, dir, !nd.graceful)
	_ = nn
	for j := 0; j < w.n; j++ {
		if j != pi && !w.net.IsCut(pi, j) {
			w.net.Connect(pi, j)
		}
	}
}

// offline reads the last snapshot of a stopped peer with OfflineState.
func (w *world) offline(pi int) {
	nd := w.cur[pi]
	if nd.alive || !nd.graceful || nd.forced {
		return
	}
	st, err := raft.OfflineState(nd.cfg, dssync.MutexWrap(ds.NewMapDatastore()))
	if err != nil {
		w.run.Violate("C01/offline_state_error", "", "OfflineState on the data folder of stopped peer p%d failed: %v", pi, err)
		return
	}
	pins, err := st.List(context.Background())
	if err != nil {
		w.run.Violate("C01/offline_state_error", "", "listing the offline state of p%d failed: %v", pi, err)
		return
	}
	got := map[string]string{}
	for _, p := range pins {
		got[p.Cid.String()] = render(p)
	}
	w.run.Probe("offline_state_read")
	// after a graceful stop the snapshot taken on shutdown holds everything the peer had applied
	S := w.sequence()
	k := w.position(nd, S)
	if k < 0 {
		return
	}
	want := fold(S[:k])
	if !w.same(got, want) {
		w.run.Violate("C01/offline_state_differs", "", "p%d was stopped gracefully having applied %d operations; OfflineState yields %s but the fold of those operations is %s", pi, k, fmtState(got), fmtState(want))
	}
}

// ------------------------------------------------------------------ oracles

// applied returns the apply tokens of an incarnation split into segments by
// restore bursts.
func segments(toks []token) [][]token {
	var out [][]token
	var cur []token
	for _, t := range toks {
		if t.Restore {
			if len(cur) > 0 {
				out = append(out, cur)
				cur = nil
			}
			continue
		}
		cur = append(cur, t)
	}
	if len(cur) > 0 {
		out = append(out, cur)
	}
	return out
}

func tokKey(t token) string {
	if t.Put {
		return "P:" + t.Nonce
	}
	return "D:" + t.Cid
}

// named returns the incarnation's tokens with delete tokens given the identity
// of the unpin operation that caused them: LogOp.ApplyTo issues one local
// Untrack(pin) per applied unpin, and the pin carries the operation's nonce;
// the k-th delete of a CID pairs with the k-th Untrack of that CID.
func (w *world) named(nd *inc) []token {
	toks := nd.store.tokens()
	if nd.tracker == nil {
		return toks
	}
	nd.tracker.mu.Lock()
	calls := append([]trackCall{}, nd.tracker.calls...)
	nd.tracker.mu.Unlock()
	sort.SliceStable(calls, func(i, j int) bool { return calls[i].Goid < calls[j].Goid })
	byCid := map[string][]string{}
	for _, c := range calls {
		if !c.Track {
			byCid[c.Cid] = append(byCid[c.Cid], c.Nonce)
		}
	}
	used := map[string]int{}
	for i := range toks {
		t := &toks[i]
		if t.Put || t.Restore {
			continue
		}
		k := used[t.Cid]
		used[t.Cid]++
		if k < len(byCid[t.Cid]) {
			t.Nonce = byCid[t.Cid][k]
		} else {
			t.Nonce = fmt.Sprintf("?%s#%d@%s", t.Cid[len(t.Cid)-6:], k, nd.store.who) // the Untrack call never arrived (process killed)
		}
	}
	return toks
}

func opID(t token) string {
	if t.Put {
		return "P:" + t.Nonce
	}
	return "D:" + t.Nonce
}

// sequence reconstructs the single committed sequence S from what the replicas
// wrote to their stores. Every incarnation's writes fall into pieces: a piece is
// a run of applied operations that follows either the start of an incarnation on
// an empty store (the log is replayed from its first entry: the piece starts at
// position 0) or a snapshot restore (the piece starts where the snapshot ends:
// the restored content is the fold of the sequence up to there). Replicas apply
// in log order and a snapshot only holds what some replica applied before it was
// taken, so taking the pieces in the order of their first write, everything
// before a piece's start is already known when the piece is placed. A piece is
// placed where its operations agree with what is known and - after a restore -
// where the fold of the sequence up to its start is the restored content. (A
// commit retry may legally log one operation twice, so identities alone do not
// place a piece.) A piece with no place at all means two replicas diverged.
func (w *world) sequence() []token {
	S, _ := w.reconstruct()
	return S
}

type piece struct {
	nd    *inc
	who   string
	snap  map[string]string // restored content; nil: started on an empty store
	toks  []token
	first int
	start int // position of the first operation in S (-1: not placed)
}

func classOf(t token) string {
	if t.Put {
		return "P:" + t.Nonce
	}
	return "D:" + t.Cid // deletes of one CID are indistinguishable (their names come from asynchronous Untrack calls)
}

// reconstruct returns S and, per incarnation, how many operations of S it has
// applied (-1: its last write was a snapshot restore, or its place is unknown).
func (w *world) reconstruct() ([]token, map[*inc]int) {
	var pieces []*piece
	ends := map[*inc]int{}
	for _, nd := range w.all {
		if nd.store == nil {
			continue
		}
		ends[nd] = 0
		var cur *piece
		cur = &piece{nd: nd, who: nd.store.who, start: -1}
		flush := func() {
			if cur != nil && len(cur.toks) > 0 {
				cur.first = cur.toks[0].Seq
				pieces = append(pieces, cur)
			}
		}
		inBurst := false
		for _, t := range w.named(nd) {
			if t.Restore {
				if !inBurst || t.Cid == "(restore)" {
					flush()
					cur = &piece{nd: nd, who: nd.store.who, snap: map[string]string{}, start: -1}
					inBurst = true
				}
				if t.Put {
					cur.snap[t.Cid] = t.Render
				}
				continue
			}
			inBurst = false
			cur.toks = append(cur.toks, t)
		}
		flush()
		if inBurst {
			ends[nd] = -1
		}
	}
	sort.SliceStable(pieces, func(i, j int) bool { return pieces[i].first < pieces[j].first })
	var S []token
	ambiguous := false
	matches := func(pc *piece, st int) bool {
		for i, t := range pc.toks {
			if st+i < len(S) && classOf(t) != classOf(S[st+i]) {
				return false
			}
		}
		return true
	}
	for _, pc := range pieces {
		var byClass, byContent []int
		if pc.snap == nil {
			if matches(pc, 0) {
				byClass, byContent = []int{0}, []int{0}
			}
		} else {
			for st := 0; st <= len(S); st++ {
				if !matches(pc, st) {
					continue
				}
				byClass = append(byClass, st)
				if sameMap(fold(S[:st]), pc.snap) {
					byContent = append(byContent, st)
				}
			}
		}
		st := -1
		switch {
		case len(byContent) == 1:
			st = byContent[0]
		case len(byContent) > 1:
			// the same operations with the same content before them in more than one
			// place (adjacent copies of one operation): the places are equivalent for
			// the fold up to the end of the piece only if nothing but copies lies
			// between them; do not judge such runs
			ambiguous = true
			w.run.Probe("sequence_ambiguous_not_judged")
			st = byContent[len(byContent)-1]
		case len(byClass) == 1:
			// one place by operations, but the snapshot restored before it is not the
			// fold of the sequence up to there
			st = byClass[0]
			if !ambiguous {
				w.run.Violate("C01/snapshot_not_a_prefix", "", "replica %s restored a snapshot holding %s and went on applying %v, which places it after %d operations of the committed sequence; those fold to %s", pc.who, fmtState(pc.snap), shortToks(pc.toks), st, fmtState(fold(S[:st])))
			}
		case len(byClass) > 1:
			ambiguous = true
			w.run.Probe("sequence_ambiguous_not_judged")
			st = byClass[len(byClass)-1]
		default:
			if !ambiguous {
				w.run.Violate("C01/diverged", "", "replica %s applied a run of operations that has no place in the committed sequence (pieces placed in the order of their first write)\n sequence so far: %v\n this replica's run: %v\n restored before it: %s", pc.who, shortToks(S), shortToks(pc.toks), fmtState(pc.snap))
			} else {
				w.run.Probe("sequence_ambiguous_not_judged")
			}
			ends[pc.nd] = -1
			continue
		}
		pc.start = st
		for i, t := range pc.toks {
			j := st + i
			if j == len(S) {
				S = append(S, t)
				continue
			}
			if t.Put && S[j].Render != t.Render {
				w.run.Violate("C01/diverged_content", "", "two replicas stored different values for the same operation %s:\n %s\n %s", t.Nonce, S[j].Render, t.Render)
			}
			if t.Seq < S[j].Seq {
				S[j] = t
			}
		}
		if ends[pc.nd] >= 0 {
			ends[pc.nd] = st + len(pc.toks)
		}
	}
	// an incarnation whose last write was a restore has no known position; one
	// that wrote nothing is at 0 only if it started on an empty store and stayed so
	for _, nd := range w.all {
		if nd.store == nil {
			continue
		}
		toks := nd.store.tokens()
		if len(toks) > 0 && toks[len(toks)-1].Restore {
			ends[nd] = -1
		}
	}
	w.ambiguous = ambiguous
	return S, ends
}

func shortToks(ts []token) []string {
	var ks []string
	for _, t := range ts {
		ks = append(ks, opID(t))
	}
	return shortKeys(ks)
}

// position is the number of operations of S the incarnation has applied
// (-1 when its last write was a snapshot restore: then only the content tells).
func (w *world) position(nd *inc, S []token) int {
	_, ends := w.reconstruct()
	if k, ok := ends[nd]; ok && k <= len(S) {
		return k
	}
	return -1
}

func fold(S []token) map[string]string {
	m := map[string]string{}
	for _, t := range S {
		if t.Put {
			m[t.Cid] = t.Render
		} else {
			delete(m, t.Cid)
		}
	}
	return m
}

// same compares two pinsets; when the committed sequence could not be
// reconstructed unambiguously (see reconstruct) nothing is judged against it.
func (w *world) same(a, b map[string]string) bool {
	if w.ambiguous {
		return true
	}
	return sameMap(a, b)
}

func sameMap(a, b map[string]string) bool {
	if len(a) != len(b) {
		return false
	}
	for k, v := range a {
		if b[k] != v {
			return false
		}
	}
	return true
}

func fmtState(m map[string]string) string {
	ks := make([]string, 0, len(m))
	for k := range m {
		ks = append(ks, k)
	}
	sort.Strings(ks)
	var sb strings.Builder
	sb.WriteString("{")
	for _, k := range ks {
		v := m[k]
		n := ""
		if i := strings.Index(v, "name="); i >= 0 {
			n = v[i:]
			if j := strings.Index(n, " type="); j > 0 {
				n = n[:j]
			}
		}
		fmt.Fprintf(&sb, "%s:%s ", k[len(k)-6:], n)
	}
	sb.WriteString("}")
	return sb.String()
}

func (w *world) stateOf(nd *inc) (map[string]string, error) {
	st, err := nd.cons.State(context.Background())
	if err != nil {
		return nil, err
	}
	pins, err := st.List(context.Background())
	if err != nil {
		return nil, err
	}
	m := map[string]string{}
	for _, p := range pins {
		m[p.Cid.String()] = render(p)
	}
	return m, nil
}

func (w *world) converged() bool {
	S := w.sequence()
	want := fold(S)
	for _, nd := range w.cur {
		if !nd.alive {
			return false
		}
		got, err := w.stateOf(nd)
		if err != nil || !w.same(got, want) {
			return false
		}
	}
	return true
}

// observe checks that every live replica's pinset is the fold of a prefix of S.
func (w *world) observe(tag string, final bool) {
	S := w.sequence()
	if w.run.Violated() && !final {
		return
	}
	w.run.Probe("observations")
	full := fold(S)
	for _, nd := range w.cur {
		if nd == nil || !nd.alive || nd.cons == nil {
			continue
		}
		got, err := w.stateOf(nd)
		if err != nil {
			continue // "no state agreed yet": nothing served
		}
		k := w.position(nd, S)
		restored := false
		for _, t := range nd.store.tokens() {
			if t.Restore {
				restored = true
			}
		}
		if restored {
			w.run.Probe("replica_restored_from_snapshot")
		}
		ok := false
		if k >= 0 {
			ok = w.same(got, fold(S[:k]))
		} else {
			// position unknown (the replica's last write was a snapshot restore):
			// its pinset must be the fold of SOME prefix
			for j := 0; j <= len(S); j++ {
				if w.same(got, fold(S[:j])) {
					ok = true
					break
				}
			}
		}
		if !ok {
			clause := "C01/not_a_prefix"
			sig := "plain"
			if restored {
				// is it a prefix fold plus leftovers that a later snapshot should have removed?
				for j := 0; j <= len(S); j++ {
					f := fold(S[:j])
					extraOnly := true
					for c, v := range f {
						if got[c] != v {
							extraOnly = false
						}
					}
					if extraOnly && len(got) > len(f) {
						clause, sig = "C01/stale_after_restore", "snapshot restored onto a non-empty store"
						break
					}
				}
			}
			w.run.Violate(clause, sig, "%s: replica %s serves %s, which is not the result of applying a prefix of the committed sequence (it has applied %d of %d operations; that prefix folds to %s)", tag, nd.store.who, fmtState(got), k, len(S), fmtState(fold(S[:max(k, 0)])))
		}
		if final && !w.same(got, full) {
			// still a legal prefix (checked above): the statement makes no promise
			// about how fast a replica catches up, so this is a probe, not a clause
			w.run.Probe("replica_lagging_at_end")
		}
	}
	w.run.Ev("oracle", "observe", "%s |S|=%d", tag, len(S))
}

// judgeHistory checks acknowledgements and the tracker hand-off over the whole run.
func (w *world) judgeHistory() {
	S := w.sequence()
	for _, nd := range w.all {
		if nd.store == nil {
			continue
		}
		var ks []string
		for _, t := range w.named(nd) {
			k := opID(t)
			if t.Restore {
				k = "R" + k
			}
			ks = append(ks, fmt.Sprintf("%s@%d", k, t.Seq))
		}
		w.run.Ev(nd.store.who, "applied", "%v", shortKeys(ks))
	}
	inS := map[string]bool{}
	dels := map[string]int{}
	for _, t := range S {
		if t.Put {
			inS[t.Nonce] = true
		} else {
			dels[t.Cid]++
		}
	}
	ackedUnpins := map[string]int{}
	for _, o := range w.ops {
		if !o.Done || o.Err != "" {
			continue
		}
		w.run.Probe("acknowledged_ops")
		if o.Pin {
			if !inS[o.Nonce] {
				w.run.Violate("C01/acknowledged_pin_lost", "", "LogPin %s (cid %s) returned nil but no replica ever applied it", o.Nonce, o.Cid[len(o.Cid)-6:])
				continue
			}
			// pin inserts or replaces the entry: what is stored is the pin that was
			// submitted, not a blend with whatever was applied before it
			for _, t := range S {
				if t.Put && t.Nonce == o.Nonce && t.Render != o.Want {
					w.run.Violate("C01/stored_differs_from_submitted", "", "LogPin %s was submitted as\n %s\nand every replica stored\n %s", o.Nonce, o.Want, t.Render)
					break
				}
			}
			w.run.Probe("stored_compared_with_submitted")
			// visible on the committing peer when the call returns
			seen := false
			for _, nd := range w.all {
				if nd.store == nil {
					continue
				}
				for _, t := range nd.store.tokens() {
					if t.Put && !t.Restore && t.Nonce == o.Nonce && t.Seq > o.InvokeSeq && t.Seq < o.ReturnSeq {
						seen = true
					}
				}
			}
			if !seen {
				w.run.Violate("C01/acknowledged_before_applied", "", "LogPin %s returned nil but no replica applied it between its invocation and its return", o.Nonce)
			}
		} else {
			ackedUnpins[o.Cid]++
			seen := false
			for _, nd := range w.all {
				if nd.store == nil {
					continue
				}
				for _, t := range nd.store.tokens() {
					if !t.Put && !t.Restore && t.Cid == o.Cid && t.Seq > o.InvokeSeq && t.Seq < o.ReturnSeq {
						seen = true
					}
				}
			}
			if !seen {
				w.run.Violate("C01/acknowledged_before_applied", "unpin", "LogUnpin %s of %s returned nil but no replica removed the entry between invoke and return", o.Nonce, o.Cid[len(o.Cid)-6:])
			}
		}
	}
	for c, n := range ackedUnpins {
		if dels[c] < n {
			w.run.Violate("C01/acknowledged_unpin_lost", "", "%d unpins of %s were acknowledged but the committed sequence holds only %d", n, c[len(c)-6:], dels[c])
		}
	}
	// tracker hand-off: every applied change reached the local tracker with the same content
	for _, nd := range w.all {
		if nd.store == nil || nd.tracker == nil {
			continue
		}
		nd.tracker.mu.Lock()
		calls := append([]trackCall{}, nd.tracker.calls...)
		nd.tracker.mu.Unlock()
		tracks := map[string]string{}
		untracks := map[string]int{}
		for _, c := range calls {
			if c.Track {
				tracks[c.Nonce] = c.Render
			} else {
				untracks[c.Cid]++
			}
		}
		// calls are asynchronous: only judge incarnations that had time to deliver them
		if !nd.alive && !nd.graceful {
			continue
		}
		wantUn := map[string]int{}
		for _, t := range nd.store.tokens() {
			if t.Restore {
				continue
			}
			if t.Put {
				r, ok := tracks[t.Nonce]
				if !ok {
					w.run.Violate("C01/tracker_not_told", "pin", "replica %s applied pin %s but its tracker never received Track", nd.store.who, t.Nonce)
				} else if r != t.Render {
					w.run.Violate("C01/tracker_told_differently", "", "replica %s stored\n %s\nbut handed the tracker\n %s", nd.store.who, t.Render, r)
				}
			} else {
				wantUn[t.Cid]++
			}
		}
		for c, n := range wantUn {
			if untracks[c] < n {
				w.run.Violate("C01/tracker_not_told", "unpin", "replica %s applied %d unpins of %s but its tracker received %d Untrack calls", nd.store.who, n, c[len(c)-6:], untracks[c])
			}
		}
		w.run.Probe("tracker_handoffs_checked")
	}
}

func shortKeys(ks []string) []string {
	out := make([]string, len(ks))
	for i, k := range ks {
		if i := strings.Index(k, "@"); i > 12 {
			k = k[:2] + k[i-6:]
		} else if i < 0 && len(k) > 10 {
			k = k[:2] + k[len(k)-6:]
		}
		out[i] = k
	}
	return out
}
