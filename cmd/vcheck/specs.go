package main

// spec is the static description of one property's check.
type spec struct {
	ID      string
	Harness string
	Race    bool
	Level   string // exploration | fault_enumeration

	Batch         int     // plans per worker process (1 on the heavy stacks)
	Workers       int     // default 16
	MultiProc     int     // GOMAXPROCS for the workers (default 1)
	QuickSecs     float64 // exploration budget, wall seconds
	ThoroughSecs  float64
	QuickPlans    int // cap (0 = time only)
	ThoroughPlans int
	PlanTimeoutS  float64 // watchdog per plan

	DetSamples   int
	DetThreshold float64 // identical/replayed below this -> exit 2 (default 1.0)

	CrashIsViolation bool // C18: a worker dying with a race report or panic is the violation

	RequiredProbes []string
	Rule           string
	Real           []string
	Model          []string
	Assumptions    []string
}

func (s *spec) Procs() int {
	if s.MultiProc > 0 {
		return s.MultiProc
	}
	return 1
}

func findSpec(id string) *spec {
	for _, s := range specs() {
		if s.ID == id {
			return s
		}
	}
	return nil
}

var trackerReal = []string{"pintracker/stateless (Tracker, opWorker, enqueue, Track/Untrack/Recover/RecoverAll/Status/StatusAll)", "pintracker/optracker (OperationTracker, Operation)", "api status types", "go-libp2p-gorpc local client/server"}
var trackerModel = []string{"shared pinset (state.ReadOnly over a map)", "IPFS daemon + connector idempotence behind the IPFSConnector RPC service (parks calls; plan decides completion order, outcome, cancellation barrier)"}

func specs() []*spec {
	return []*spec{
		{
			ID: "C05", Harness: "trackersim", Level: "exploration",
			Batch: 200, QuickSecs: 25, ThoroughSecs: 600, PlanTimeoutS: 5,
			RequiredProbes: []string{"recover_rounds", "quiescent_checks", "release_err", "release_lost", "burst", "instruction_error", "recover_round_queue_full"},
			Rule:           "plan = initial state/daemon content + 5-90 steps (track/untrack/recover/recoverall, hold/release of parked IPFS calls with outcome ok|err|lost, scripted failures, bursts against a stalled daemon) with knobs ConcurrentPins 1-4, MaxPinQueueSize 1-8, 2-4 CIDs, runtime tie-break seed; generated from the plan seed. Non-trivial = at least one client operation and at least one fault actually fired; distinct = distinct canonical trace digest.",
			Real:           trackerReal, Model: trackerModel,
			Assumptions: []string{
				"IPFS cancellation is a barrier: a call whose context is cancelled before the simulator releases it has no effect (DESIGN §5)",
				"per-CID pin modes are monotone direct->recursive while the CID stays in the pinset (the cluster refuses the downgrade, C04)",
				"goroutine interleaving inside one simulated instant is chosen by the patched runtime from the plan's rtseed, not enumerated",
			},
		},
		{
			ID: "C06", Harness: "trackersim", Level: "exploration",
			Batch: 200, QuickSecs: 25, ThoroughSecs: 600, PlanTimeoutS: 5,
			RequiredProbes: []string{"filters_checked", "quiescent_checks", "release_err"},
			Rule:           "same plans as C05; at every quiescent instant Status(cid) and StatusAll are compared by class with each other and with the facts (pinset entry, daemon content, last outcome), and 19 filters (every single status, the two composites, 5 unions) are checked against the filter law. Non-trivial = >=1 client operation and >=1 fired fault; distinct = distinct canonical trace digest.",
			Real:           trackerReal, Model: trackerModel,
			Assumptions: []string{
				"views are compared by class {pinned, remote, sharded, unpinned-or-absent, error, pending}: pin_error in one view and unexpectedly_unpinned in the other is agreement",
				"cluster-wide view (Cluster.Status/StatusAll peer maps) is checked by the clustersim scenario, not here",
			},
		},
		{
			ID: "C09", Harness: "monsim", Level: "exploration",
			Batch: 100, QuickSecs: 30, ThoroughSecs: 600, PlanTimeoutS: 20,
			RequiredProbes: []string{"reads", "alerts", "alert_once_episodes", "expiry_episodes_seen", "window_wrapped", "peerset_change", "remove_peer", "partition", "expired_on_arrival"},
			Rule:           "plan = scenario (bare Store+Checker.Watch | pubsubmon Monitors over gossipsub on mocknet, 1-3 hosts) + 5-150 steps (LogMetric arrivals with validity flag and TTL 0.1-60 s incl. already-expired, trains longer than the 25-slot window, PublishMetric over gossipsub, peerset changes, RemovePeer, partitions/heals, reads), with delays chosen so that reads and checker ticks land before/at/after expiry instants; knobs: check interval 0.2-15 s, peerset known or nil, 1-6 peers, 1-3 metric names. Non-trivial = >=1 arrival and >=1 fault/irregular event fired; distinct = distinct canonical trace digest.",
			Real:           []string{"monitor/metrics Store, Window, Checker (Watch, CheckPeers, CheckAll, alert)", "monitor/pubsubmon Monitor (LogMetric, PublishMetric, LatestMetrics, Alerts, logFromPubsub)", "api.Metric (Expired/Discard)", "go-libp2p-pubsub gossipsub with signing, libp2p basic host on mocknet"},
			Model:          []string{"reference table (name,peer) -> arrivals; peerset function driven by the plan", "publish cadence of Cluster (informer/ping loops) is decided by clustersim, not here"},
			Assumptions: []string{
				"at the exact expiry instant either answer is accepted (Expired() is strict)",
				"with >= 6 samples the accrual detector may legitimately wait: no upper bound on alert delay is asserted there",
				"for metrics that (also) travel over gossipsub only structural clauses are checked (arrival order is not prescribed)",
			},
		},
	}
}
