package main

import (
	"os"
	"strconv"
)

// spec is the static description of one property's check.
// part is one harness of a check that spans several (budget share each).
type part struct {
	Harness string
	Share   float64
	Batch   int
}

type spec struct {
	ID      string
	Harness string
	Parts   []part // optional: several harnesses decide this property together
	Race    bool
	Level   string // exploration | fault_enumeration

	Batch         int     // plans per worker process (1 on the heavy stacks)
	Workers       int     // default 16
	MultiProc     int     // GOMAXPROCS for the workers (default 1)
	QuickSecs     float64 // exploration budget, wall seconds
	ThoroughSecs  float64
	QuickPlans    int // cap (0 = time only)
	ThoroughPlans int
	PlanTimeoutS  float64 // watchdog per plan

	DetSamples   int
	DetThreshold float64 // identical/replayed below this -> exit 2 (default 1.0)

	CrashIsViolation bool // C18: a worker dying with a race report or panic is the violation

	RequiredProbes []string
	Rule           string
	Real           []string
	Model          []string
	Assumptions    []string
}

// planWallS is the real-time budget of one plan during exploration: a plan over
// it ends itself at its next step boundary (verdict "abandoned", reported in the
// evidence). Replays, the determinism self-test and --plan-seed run without it.
// VERIF_PLAN_WALL_S overrides it (a trial of the mechanism itself).
func (s *spec) planWallS() float64 {
	if f, err := strconv.ParseFloat(os.Getenv("VERIF_PLAN_WALL_S"), 64); err == nil && f > 0 {
		return f
	}
	return s.PlanTimeoutS / 2
}

func (s *spec) Procs() int {
	if s.MultiProc > 0 {
		return s.MultiProc
	}
	return 1
}

func findSpec(id string) *spec {
	for _, s := range specs() {
		if s.ID == id {
			return s
		}
	}
	return nil
}

var trackerReal = []string{"pintracker/stateless (Tracker, opWorker, enqueue, Track/Untrack/Recover/RecoverAll/Status/StatusAll)", "pintracker/optracker (OperationTracker, Operation)", "api status types", "go-libp2p-gorpc local client/server"}
var trackerModel = []string{"shared pinset (state.ReadOnly over a map)", "IPFS daemon + connector idempotence behind the IPFSConnector RPC service (parks calls; plan decides completion order, outcome, cancellation barrier)"}

func specs() []*spec {
	return []*spec{
		{
			ID: "C05", Harness: "trackersim", Level: "exploration",
			Batch: 200, QuickSecs: 25, ThoroughSecs: 600, PlanTimeoutS: 5,
			RequiredProbes: []string{"recover_rounds", "quiescent_checks", "release_err", "release_lost", "burst", "instruction_error", "recover_round_queue_full"},
			Rule:           "plan = initial state/daemon content + 5-90 steps (track/untrack/recover/recoverall, hold/release of parked IPFS calls with outcome ok|err|lost, scripted failures, bursts against a stalled daemon) with knobs ConcurrentPins 1-4, MaxPinQueueSize 1-8, 2-4 CIDs, runtime tie-break seed; generated from the plan seed. Non-trivial = at least one client operation and at least one fault actually fired; distinct = distinct canonical trace digest.",
			Real:           trackerReal, Model: trackerModel,
			Assumptions: []string{
				"IPFS cancellation is a barrier: a call whose context is cancelled before the simulator releases it has no effect (DESIGN §5)",
				"per-CID pin modes are monotone direct->recursive while the CID stays in the pinset (the cluster refuses the downgrade, C04)",
				"goroutine interleaving inside one simulated instant is chosen by the patched runtime from the plan's rtseed, not enumerated",
			},
		},
		{
			ID: "C06", Harness: "trackersim", Level: "exploration",
			Parts: []part{{Harness: "trackersim", Share: 0.7, Batch: 200}, {Harness: "clustersim", Share: 0.3, Batch: 20}},
			Batch: 200, QuickSecs: 35, ThoroughSecs: 600, PlanTimeoutS: 30,
			RequiredProbes: []string{"filters_checked", "quiescent_checks", "release_err", "global_status_checked", "global_listing_checked", "unreachable_allocated_peer", "allocated_peer_left_peerset"},
			Rule:           "same plans as C05; at every quiescent instant Status(cid) and StatusAll are compared by class with each other and with the facts (pinset entry, daemon content, last outcome), and 19 filters (every single status, the two composites, 5 unions) are checked against the filter law. Non-trivial = >=1 client operation and >=1 fired fault; distinct = distinct canonical trace digest.",
			Real:           trackerReal, Model: trackerModel,
			Assumptions: []string{
				"views are compared by class {pinned, remote, sharded, unpinned-or-absent, error, pending}: pin_error in one view and unexpectedly_unpinned in the other is agreement",
				"part 2 (clustersim): 1-4 real Cluster peers plus 0-2 members that are down answer Status(cid) and the unfiltered StatusAll() at an observer while links are cut; each peer's tracker reports what the plan tells it; expected peer map: own report for allocated reachable peers, cluster_error for allocated unreachable ones, remote for the other members, unpinned everywhere for an item outside the pinset; the filtered cluster-wide listing is not judged (the statement defines filtering for a peer's listing)",
			},
		},
		{
			ID: "C09", Harness: "monsim", Level: "exploration",
			Parts: []part{{Harness: "monsim", Share: 0.7, Batch: 100}, {Harness: "clustersim", Share: 0.3, Batch: 40}},
			Batch: 100, QuickSecs: 30, ThoroughSecs: 600, PlanTimeoutS: 20,
			RequiredProbes: []string{"reads", "alerts", "alert_once_episodes", "arrival_after_checker_forgot", "expiry_episodes_seen", "window_wrapped", "peerset_change", "remove_peer", "partition", "expired_on_arrival", "cadence_checked", "retries_checked", "publish_errors", "ipfs_down", "slow_daemon_reads"},
			Rule:           "plan = scenario (bare Store+Checker.Watch | pubsubmon Monitors over gossipsub on mocknet, 1-3 hosts) + 5-150 steps (LogMetric arrivals with validity flag and TTL 0.1-60 s incl. already-expired, trains longer than the 25-slot window, PublishMetric over gossipsub, peerset changes, RemovePeer, partitions/heals, reads), with delays chosen so that reads and checker ticks land before/at/after expiry instants; knobs: check interval 0.2-15 s, peerset known or nil, 1-6 peers, 1-3 metric names. Non-trivial = >=1 arrival and >=1 fault/irregular event fired; distinct = distinct canonical trace digest.",
			Real:           []string{"monitor/metrics Store, Window, Checker (Watch, CheckPeers, CheckAll, alert)", "monitor/pubsubmon Monitor (LogMetric, PublishMetric, LatestMetrics, Alerts, logFromPubsub)", "api.Metric (Expired/Discard)", "go-libp2p-pubsub gossipsub with signing, libp2p basic host on mocknet"},
			Model:          []string{"reference table (name,peer) -> arrivals; peerset function driven by the plan", "publish-cadence part (clustersim): real Cluster.pushInformerMetrics/pushPingMetrics with the real disk and numpin informers over a model IPFS, recording monitor that fails k consecutive publishes"},
			Assumptions: []string{
				"at the exact expiry instant either answer is accepted (Expired() is strict)",
				"with >= 6 samples the accrual detector may legitimately wait: no upper bound on alert delay is asserted there",
				"for metrics that (also) travel over gossipsub only structural clauses are checked (arrival order is not prescribed)",
			},
		},
		{
			ID: "C03", Harness: "clustersim", Level: "exploration",
			Batch: 40, QuickSecs: 30, ThoroughSecs: 600, PlanTimeoutS: 20,
			RequiredProbes: []string{"allocations_judged", "preset_allocations_with_factor_minus_one", "preference_checked", "refused_not_enough_peers", "identical_options_shortcut", "exclusion_reallocated", "short_ttl_metric", "invalid_metric"},
			Rule:           "plan = peer set of 1-8 members (one real Cluster, the others present through their metrics), allocator ascend|descend, cluster default factors, then 15-200 steps: metric arrivals (numeric incl. ties and max uint64, non-numeric, invalid, TTL 50 ms-10 min or already expired), seeded pinset entries with arbitrary current allocations, Pin / BlockAllocate (RPC) with every factor (also only one of the two given, the other from the configuration) pair, user (priority) allocations, identical or changed options, PeerRemove-driven exclusion; delays land calls before/at/after metric expiry instants. Each call is judged against the monitor table read at the same simulated instant. Non-trivial = >=1 call and >=1 irregular metric/exclusion fired; distinct = distinct canonical trace digest.",
			Real:           []string{"ipfscluster.Cluster (Pin, pin, setupPin, allocate, obtainAllocations, PeerRemove/vacatePeer/repinFromPeer, BlockAllocate RPC, RPC server)", "allocator/ascendalloc, descendalloc, allocator/util.SortNumeric", "monitor/metrics.Store (freshness filter inside the model monitor)", "state/dsstate (pinset storage)", "gorpc over libp2p basic host on mocknet"},
			Model:          []string{"consensus (single-copy pinset over dsstate, call log)", "monitor shell (table fed by the plan, real Store inside)", "tracker, IPFS connector, informer"},
			Assumptions:    []string{"ties between equal metric values may fall either way (the shipped sort is not stable)", "a call during which simulated time passed is not judged (none is expected)", "ambiguous metric values (negative, fractional) are not generated"},
		},
		{
			ID: "C04", Harness: "clustersim", Level: "exploration",
			Batch: 40, QuickSecs: 30, ThoroughSecs: 600, PlanTimeoutS: 20,
			RequiredProbes: []string{"refusals", "identical_repin", "updates", "meta_unpinned", "sharded_triple_seeded", "metadata_key_removed", "meta_requests_through_rpc_endpoint"},
			Rule:           "plan = cluster defaults (factor pair, follower on/off), 1-5 healthy members, 2-5 CIDs, optional sharded triple, then 5-120 calls of Pin / PinPath / PinUpdate (option and direct) / Unpin / UnpinPath, a third of the pins and unpins through the peer's own Cluster.Pin / Cluster.Unpin RPC endpoints as the REST API does, with every option (name, mode, factors incl. invalid pairs and pairs with only one factor given, expiry past/future with the clock moved between calls, metadata keys added/removed/changed, origins, user allocations, update source), plus re-pins derived from the stored entry (identical, key removed, key added, value changed). After every call the whole pinset is compared with an executable reference model of the statement. Non-trivial = >=1 call; distinct = distinct canonical trace digest.",
			Real:           []string{"ipfscluster.Cluster (Pin, PinPath, PinUpdate, Unpin, UnpinPath, pin, setupPin, checkPinType, unpinClusterDag, cidsFromMetaPin)", "api.PinOptions.Equals, api.PinWithOpts", "state/dsstate + protobuf pin codec", "real allocator"},
			Model:          []string{"consensus (single-copy pinset)", "monitor (all members healthy)", "IPFS connector (Resolve table, BlockGet of the cluster-DAG block)", "reference model of the statement (map CID -> pin + refusal rules)"},
			Assumptions:    []string{"expiry is compared in whole seconds (documented lossy field)", "metadata with empty keys or empty values is not generated (the statement does not determine it)", "PinUpdate onto an existing sharded entry is not generated"},
		},
		{
			ID: "C10", Harness: "clustersim", Level: "exploration",
			Batch: 10, QuickSecs: 40, ThoroughSecs: 600, PlanTimeoutS: 30,
			RequiredProbes: []string{"rehomed", "untouched_meets_min", "alert_delivered", "peer_removed", "expired_unpinned", "update_pin_in_pinset", "untrusted_follower_in_peerset", "config_passed_through_env_overlay"},
			Rule:           "plan = 1-8 real Cluster peers sharing one model consensus, pinset of 1-12 entries (any allocations, factor pairs, options, entries created by pin-update), per-survivor metric state, re-pinning on/off, follower on/off; one member fails (ping alert delivered to every survivor in a plan-chosen order) or is removed with PeerRemove; expiry scenario: entries with expiry before/after now, StateSync on every peer after the clock moved. Pinset before/after and the per-peer consensus call log are compared. Non-trivial = >=1 failure/removal/sync and >=1 entry affected; distinct = distinct canonical trace digest.",
			Real:           []string{"ipfscluster.Cluster (alertsHandler, vacatePeer, repinFromPeer, pin, allocate, PeerRemove, StateSync, distances/isClosest, getTrustedPeers)", "real allocator", "state/dsstate"},
			Model:          []string{"consensus (records which peer issued each LogPin/LogUnpin)", "monitors (alert channels driven by the plan; same metric view on every peer)", "tracker, IPFS, informer"},
			Assumptions:    []string{"members agree on the peerset and on the metric view (given in the statement)", "follower mode is on for all peers or for none"},
		},
		{
			ID: "C16", Harness: "ipfshttpsim", Level: "exploration",
			Batch: 200, QuickSecs: 25, ThoroughSecs: 420, PlanTimeoutS: 10,
			RequiredProbes: []string{"already_pinned_as_asked", "pin_update_used", "stalled_pin", "stalled_before_headers", "unpin_absent", "lscid_ok", "lscid_non_json_failure", "pin/add:transport", "pin/add:err_json", "pin/ls:transport", "pin/rm:err_json"},
			Rule:           "plan = connector timeouts (PinTimeout 1-120 s, UnpinTimeout, IPFSRequestTimeout) + one call drawn systematically from the product {pin recursive|direct|depth|update, unpin, pin-ls} x prior daemon state x behaviour of every HTTP request of the conversation (pin/ls -> [swarm/connect] -> [pin/ls of source -> pin/update] | pin/add with progress): ok, IPFS JSON error, non-JSON error, transport error, no answer, garbage body, a 200 status followed by a dropped or stalled body (with or without the operation having taken effect), and for the progress stream n progress objects at 0-20 s gaps ending in final object | stall | connection drop | clean end with X-Stream-Error trailer; followed by 0-5 random calls over 3 CIDs. A contiguous seed range as long as the product (about 66k) covers the first-call product completely. Non-trivial = >=1 call and >=1 non-ok daemon behaviour fired; distinct = distinct canonical trace digest.",
			Real:           []string{"ipfsconn/ipfshttp.Connector (Pin, pinProgress + watchdog, pinUpdate, Unpin, PinLsCid, postCtx/checkResponse error mapping)", "net/http client machinery above RoundTrip"},
			Model:          []string{"scripted in-memory IPFS HTTP daemon installed as http.DefaultTransport (pin table with modes, go-ipfs error strings, go-ipfs-cmds X-Stream-Error trailer); the effect of pin/add lands with the final stream object unless the request was cancelled"},
			Assumptions:    []string{"swarm/connect to origins is best effort by design and not judged", "the watchdog bound is 2 x PinTimeout + 1 s after the last progress (it ticks once per PinTimeout)", "a daemon that answers 200 to pin/rm or pin/update has performed it"},
		},
		{
			ID: "C01", Harness: "raftsim", Level: "exploration",
			Batch: 1, QuickSecs: 60, ThoroughSecs: 900, PlanTimeoutS: 90, // one process per plan on the heavy stack: a plan runs exactly as its replay would
			DetSamples: 10, DetThreshold: 0.9,
			RequiredProbes: []string{"observations", "acknowledged_ops", "replica_restored_from_snapshot", "leader_killed", "killed_with_call_in_flight", "leader_isolated", "offline_state_read", "tracker_handoffs_checked", "stopped_while_clients_write", "stored_compared_with_submitted", "identical_pin_submitted_again", "kill", "restart", "stop", "partition"},
			Rule:           "plan = 1-4 real Raft peers (heartbeat 50 ms-1 s, commit timeout, SnapshotThreshold 2-64, SnapshotInterval 0.3-30 s, TrailingLogs 0-32, CommitRetries 0-2, WaitForLeaderTimeout, link latency) + 8-90 steps: overlapping LogPin/LogUnpin at any member over 2-5 CIDs with pins drawn from the whole well-formed space (type, mode, factors, allocations, origins, metadata incl. empty key/value, expiry whole/sub-second, names, update and reference CIDs of both versions), partitions (incl. leader isolated), heals, connection resets, latency changes, stalls, kill (copy of the tmpfs data folder at that instant) + restart on the copy, graceful stop (+OfflineState) and start; then heal, 120 s liveness budget and a fresh write. Non-trivial = >=1 operation and >=1 fault fired; distinct = distinct canonical trace digest.",
			Real:           []string{"consensus/raft (Consensus, raftWrapper, LogOp.ApplyTo, commit/redirectToLeader, OfflineState, snapshot on shutdown)", "state/dsstate + api pin codecs (protobuf stored form, msgpack log form)", "go-libp2p-raft (FSM, codec, transport)", "hashicorp/raft, raft-boltdb + BoltDB, file snapshot store on tmpfs", "go-libp2p-gorpc, libp2p basic host on mocknet"},
			Model:          []string{"PinTracker RPC service (recording)", "recording datastore under dsstate (observes every applied write and snapshot restore in order)", "Consensus RPC service shim delegating to the real Consensus (leader redirect)"},
			Assumptions:    []string{"disk model is process kill: every completed write survives, nothing is torn inside a BoltDB transaction", "a failed or timed-out call may or may not have committed (both legal)", "residual scheduling nondeterminism of the heavy stack: exact-trace replay >= 90% (DESIGN §4), oracles are schedule independent"},
		},
		{
			ID: "C02", Harness: "crdtsim", Level: "exploration",
			Batch: 1, QuickSecs: 45, ThoroughSecs: 900, PlanTimeoutS: 60,
			DetSamples: 10, DetThreshold: 0.9,
			RequiredProbes: []string{"observations", "queue_full", "bursts", "local_order_checked", "convergence_checked", "age_limit_checked", "batching_half_configured", "trusted_update_through_untrusted_relay", "pending_after_heal_checked", "tracker_handoffs_checked", "datastore_write_failed", "partition", "untrusted_publisher_checked"},
			Rule:           "plan = 1-4 real CRDT replicas with ipfscluster.newPubSub routers (batching disabled | size-triggered 1-8 | age-triggered 50 ms-5 s, queue 1-64, rebroadcast 1-30 s, trust-all | explicit lists | one untrusted replica, single-writer or contended CIDs) + 8-100 steps: LogPin/LogUnpin (every second one with a request context that ends as soon as the call returned), bursts of 2-10 operations in one instant mixing pin and unpin of the same CID (same batch window, queue overflow), partitions, heals, resets, latency skews, datastore write failures placed in the middle of a batch (skip k writes, fail n), Trust/Distrust; then everything is healed and left quiet for 2 x rebroadcast + 30 s. Non-trivial = >=1 operation and >=1 fault fired; distinct = distinct canonical trace digest.",
			Real:           []string{"consensus/crdt (Consensus: LogPin/LogUnpin, batchWorker, hooks, topic validator, Trust/Distrust)", "state/dsstate (plain and batching)", "go-ds-crdt", "ipfs-lite + bitswap", "go-libp2p-pubsub gossipsub (signed, strict verification)", "go-libp2p-kad-dht dual DHT", "gorpc, libp2p basic host on mocknet"},
			Model:          []string{"PinTracker and PeerMonitor RPC services (recording)", "fault-injecting in-memory datastore"},
			Assumptions:    []string{"which value wins for concurrent writes to one CID is not prescribed, only that mutually trusting replicas agree", "after an injected datastore failure an accepted operation may be delayed, not lost once everything is healed and quiet"},
		},
		{
			ID: "C13", Harness: "addersim", Level: "exploration",
			Batch: 20, QuickSecs: 40, ThoroughSecs: 900, PlanTimeoutS: 60,
			RequiredProbes: []string{"adds_succeeded", "adds_failed", "content_read_back", "single_pin_checked", "sharded_pins_checked", "importer_reference_checked", "tree_reference_checked", "cidv1_without_raw_leaves", "add_asked_in_direct_mode", "default_factors_resolved", "indirect_shard_dag", "blockput_ipfs_error", "destination_partitioned", "cluster_pin_failed", "block_allocate_failed"},
			Rule:           "plan = one add of a generated file tree (empty files, sizes at chunk-1/chunk/chunk+1/multiples, nested and wide directories, hidden entries, occasionally > 5984 blocks in one shard) with generated import parameters (size-N and rabin chunkers, balanced|trickle, raw leaves, CID version, sha2-256|sha2-512|blake2b-256, wrap, hidden, local, factor pair, sharding with shard sizes from 3 blocks to everything) on 1-4 destination peers, with faults: BlockPut fails at block k on destination d as an IPFS error, or the link to d is cut at block k (RPC error), the same block fails everywhere, the k-th BlockAllocate or Cluster.Pin fails. In fault-free plans every block must also sit on every peer of the allocation its pin (or its shard) names. Non-trivial = the add ran and >=1 fault fired; distinct = distinct canonical trace digest.",
			Real:           []string{"adder (Adder.FromFiles, format selection, wrap, Finalize)", "adder/ipfsadd (importer pipeline over MFS)", "adder/single and adder/sharding DAG services (ingestBlock, flushCurrentShard, shard.Flush, makeDAG)", "adder.BlockAdder multi-destination put via gorpc MultiCall over libp2p basic hosts on mocknet", "go-unixfs importer / reader, go-merkledag, go-ipld-cbor (reference and read-back)"},
			Model:          []string{"Cluster.BlockAllocate / Cluster.Pin RPC service (recording, can fail)", "IPFSConnector.BlockPut RPC service per destination (per-destination block stores, per-(block,destination) fault)"},
			Assumptions:    []string{"reference root = the same tree through the adder's importer on a plain in-memory DAG service, and for single files the go-unixfs importer called directly", "the file-tree/parameter dimension is input generation; the fault and multi-destination dimensions are what the simulator adds"},
		},
		{
			ID: "C07", Harness: "clustersim", Level: "exploration",
			Parts: []part{{Harness: "clustersim", Share: 0.6, Batch: 1}, {Harness: "crdtsim", Share: 0.4, Batch: 1}},
			Batch: 1, QuickSecs: 50, ThoroughSecs: 600, PlanTimeoutS: 120,
			DetSamples: 8, DetThreshold: 0.9,
			RequiredProbes: []string{"walks", "refusals", "allowed_calls", "trust_changes", "endpoints_found", "untrusted_publisher_checked", "add_peer_calls", "concurrent_trust_changes", "trusted_update_through_untrusted_relay", "trust_config_saved_and_reloaded"},
			Rule:           "part 1 (clustersim): a real Cluster with a real Raft or CRDT consensus component (trust config: Raft | CRDT explicit list | empty list | trust-all, loaded through the JSON section or through defaults + CLUSTER_CRDT_TRUSTEDPEERS; tracing on or off) is called over libp2p by real gorpc clients; every RPC endpoint found by reflection over the five service types x {self, peer1, peer2} is called in a plan-chosen order (a complete walk of the table, repeated after plan-chosen Trust/Distrust calls) and each outcome is compared with what the statement dictates (untrusted: only identity, version and the join handshake; local-only endpoints refused to every remote caller; self never refused; refused means no effect on tracker, IPFS, blocks or pinset). part 2 (crdtsim): 2-4 CRDT replicas whose pubsub routers come from ipfscluster.newPubSub; one of them, which nobody trusts, publishes pins and unpins under partitions and latency skews, in a third of the plans without signatures and naming a trusted replica as author; its updates must never show up at a replica that never trusted it. Non-trivial = >=1 call; distinct = distinct canonical trace digest.",
			Real:           []string{"ipfscluster.Cluster RPC server, authorisation function and default RPC policy", "consensus/raft and consensus/crdt IsTrustedPeer/Trust/Distrust, crdt pubsub topic validator", "go-libp2p-gorpc client/server over libp2p basic hosts on mocknet", "go-libp2p-pubsub (signed), go-ds-crdt"},
			Model:          []string{"tracker, IPFS connector, monitor, informer behind the target (recording)", "specification table of peer-to-peer vs local-only endpoints written from the statement (harness/clustersim/c07.go)"},
			Assumptions:    []string{"an endpoint present in the code but absent from the specification table stops the check with exit 2 (specification incomplete)", "a replica that some trusted replica trusts is vouched for: its updates are re-published by that replica, so the pubsub clause is judged only when nobody ever trusted the publisher"},
		},
		{
			ID: "C17", Harness: "membersim", Level: "exploration",
			Batch: 1, QuickSecs: 60, ThoroughSecs: 900, PlanTimeoutS: 180,
			DetSamples: 8, DetThreshold: 0.9,
			RequiredProbes: []string{"adds_succeeded", "removals_succeeded", "agreement_checked", "joiner_pinsets_checked", "joiner_ready_observed", "removed_peer_stopped", "removed_peer_data_cleaned", "leader_removed", "self_removed", "removal_of_absent_peer", "add_of_present_peer", "last_peer_removal_refused", "rehoming_checked", "issued_at_follower", "issued_at_leader", "final_pinsets_checked", "kill", "restart", "partition"},
			Rule:           "plan = 2-4 peer slots of which 1..all bootstrap a real Raft cluster of whole ipfscluster.Cluster peers (heartbeat 100-400 ms, SnapshotThreshold 2-64, TrailingLogs 0-16, CommitRetries 0-2, peer watch interval 0.5-3 s, factor pairs, re-pinning on/off, link latency 1-40 ms) + 5-35 steps: Pin/Unpin at any member (some overlapping the next step), Join of a fresh staging peer through any member, PeerAdd of a running staging peer at any member, PeerRemove of leader / follower / self / absent peer at any member, graceful stop with or without leave_on_shutdown and restart, crash (copy of the tmpfs folders at that instant) and restart on the copy, link cuts, isolation, heal; then everything heals, members that are down restart, and a fresh pin must go through. Non-trivial = >=1 operation and >=1 fault fired; distinct = distinct canonical trace digest.",
			Real:           []string{"ipfscluster.Cluster (PeerAdd, PeerRemove, Join, vacatePeer/repinFromPeer, watchPeers, ready, Shutdown with leave and clean, Pin/Unpin, RPC server)", "consensus/raft (Consensus.AddPeer/RmPeer/WaitForSync/Peers/Clean, raftWrapper, CleanupRaft)", "go-libp2p-raft, hashicorp/raft, raft-boltdb + BoltDB, file snapshot store on tmpfs", "pstoremgr, allocator/descendalloc, go-libp2p-kad-dht dual DHT, go-libp2p-gorpc, libp2p basic host on mocknet"},
			Model:          []string{"pin tracker, IPFS connector, informer (recording models)", "peer monitor: real metrics store filtered by the peer's own consensus peerset, fed with a valid metric for every slot"},
			Assumptions:    []string{"a call that fails or does not return within 90 s may or may not have taken effect; what the members then report decides", "a peer removed while it was down, cut off or while a fault was active cannot hear about it (Raft stops replicating to it): the stop-and-clean clause is judged only for peers that were up and connected with no fault active, and plans in which such an unaware ex-member is running do not judge the final agreement (probe final_agreement_skipped_zombie)", "residual scheduling nondeterminism of the heavy stack: exact-trace replay >= 90% (DESIGN §4), oracles are schedule independent"},
		},
		{
			ID: "C18", Harness: "racesim", Level: "exploration", Race: true, CrashIsViolation: true,
			Batch: 1, QuickSecs: 60, ThoroughSecs: 900, PlanTimeoutS: 120,
			DetSamples: 8, DetThreshold: 0.9,
			RequiredProbes: []string{"all_callers_returned", "shutdown_while_in_use", "shutdown_by_two_callers_at_once", "status_lists_checked", "daemon_failures_scripted", "metric_lists_checked", "alerts_read", "alert_lists_checked", "alerts_injected", "pinsets_checked"},
			Rule:           "plan = one of five worlds (pin tracker + operation table over a model daemon; metrics store + checker + pubsub monitor; a whole Cluster with model consensus/monitor/tracker and the real disk and numpin informers; the two informers alone; the CRDT consensus component with batching) + 2-5 caller goroutines each running a plan-given sequence of 8-70 public calls (track/untrack/status/statusall/recover/recoverall; log/publish/latest/all/check/alerts/remove; inject alerts (bursts above the 1000-entry reset)/Alerts()/pin/unpin/status/peers/id/sync; GetMetric; LogPin/LogUnpin/list/trust/distrust) with pauses of 0-400 ms so that most calls land in the same instants, and in 60% of the plans a Shutdown issued by one caller while the others go on. Lock acquisitions are seeded scheduling points with a per-plan probability of 0-60 % (runtime overlay, knob lock_yield). Built with the race detector (checkptr off). Violation = race report, panic on a goroutine of the code under test, Shutdown or callers stuck for minutes of simulated time, or a structurally torn result (empty or duplicated entries in status, metric, alert or pinset lists). Non-trivial = >=1 call; distinct = distinct canonical trace digest.",
			Real:           []string{"pintracker/stateless + optracker", "monitor/metrics Store, Window, Checker; monitor/pubsubmon over gossipsub", "ipfscluster.Cluster facade (Alerts, alertsHandler, Pin/Unpin, Status*, Peers, ID, StateSync, RecoverAllLocal, Shutdown, publish loops)", "informer/disk, informer/numpin", "consensus/crdt (batching queue, Trust/Distrust, Shutdown), go-ds-crdt", "Go race detector (happens-before, independent of the interleaving that ran)"},
			Model:          []string{"IPFS daemon and connector, consensus/monitor/tracker behind the Cluster facade (models, internally locked)"},
			Assumptions:    []string{"the race detector reports accesses unordered by happens-before among those executed; which accesses execute is decided by the plan", "reports inside third-party dependencies are matched against the known-findings file like any other"},
		},
		{
			ID: "C14", Harness: "raftsim", Level: "exploration",
			Batch: 8, QuickSecs: 45, ThoroughSecs: 600, PlanTimeoutS: 120,
			DetSamples: 8, DetThreshold: 0.9,
			RequiredProbes: []string{"offline_state_checked", "exports", "started_on_import", "import_over_existing_state", "rotations_checked", "torn_snapshot_folder_backed_up", "peerstore_round_trips", "malformed_peerstore_lines", "state_dump_round_trips", "peerstore_without_final_newline"},
			Rule:           "plan = a pinset built by 1-12 generated LogPin/LogUnpin calls on a real single-peer Raft (all pin fields except origins), graceful stop (snapshot on shutdown), OfflineState, JSON export through the real StateManager, import into another base directory that may already hold a different pinset, a peer started on the imported snapshot; then 1-5 CleanupRaft calls with backups_rotate 1-6, pre-existing backups (a contiguous run, or any set with holes and folders beyond the retention) and 0-2 further writes before each; the import target is empty, a cleanly stopped peer or what a killed peer leaves (log entries, no shutdown snapshot); then a peerstore save/load round trip (in half of the plans over a longer file saved earlier) with 1-5 peers (ip and dns addresses, several per peer, priority order) and malformed lines mixed into the file. Non-trivial = >=1 operation; distinct = distinct canonical trace digest.",
			Real:           []string{"cmdutils StateManager (exportState/importState)", "consensus/raft SnapshotSave, OfflineState, LastStateRaw, CleanupRaft, dataBackupHelper, snapshot on shutdown", "state/dsstate Marshal/Unmarshal, api pin codecs (protobuf, JSON)", "pstoremgr SavePeerstore/LoadPeerstore/ImportPeers/PeerInfos", "hashicorp/raft + BoltDB + file snapshot store on tmpfs"},
			Model:          []string{"directory model of raft / raft.old.N", "reference pinset (fold of the applied writes)"},
			Assumptions:    []string{"pins with origins are not used here (known finding of C01)", "pre-existing backups are a contiguous set of at most N folders", "only folders that hold a snapshot are cleaned (an empty data folder is simply removed)"},
		},
	}
}
