// vcheck is the driver of the deterministic-simulation checks: it rebuilds the
// harness from /repo's working tree, fans plan seeds out over worker
// processes, aggregates results, matches known findings, shrinks and writes
// replay files, runs the determinism self-test and writes the evidence file.
//
// Exit codes: 0 held on everything explored (KNOWN-FINDING lines allowed);
// 1 VIOLATION printed; 2 machinery trouble (never reported as a violation).
package main

import (
	"bufio"
	"bytes"
	"encoding/json"
	"fmt"
	"os"
	"os/exec"
	"path/filepath"
	"sort"
	"strconv"
	"strings"
	"sync"
	"sync/atomic"
	"time"

	"verif/simplan"
)

// repoDir is /repo. VERIF_REPO points a background run (vp run --with-repo) at a
// snapshot of the repository, so that changes tried out in /repo meanwhile do
// not reach it: the harness is then built with a generated -modfile whose
// replace directive names the snapshot.
var repoDir = func() string {
	if d := os.Getenv("VERIF_REPO"); d != "" {
		return d
	}
	return "/repo"
}()

// altModfile writes go.alt.mod/go.alt.sum next to go.mod with the replace
// directive redirected to repoDir, and returns its path ("" when repoDir is /repo).
func altModfile() string {
	if repoDir == "/repo" {
		return ""
	}
	b, err := os.ReadFile(filepath.Join(verifDir, "go.mod"))
	if err != nil {
		die2("cannot read go.mod: %v", err)
	}
	alt := strings.Replace(string(b), "=> /repo", "=> "+repoDir, 1)
	alt = strings.Replace(alt, "=> ./stubs/", "=> "+filepath.Join(verifDir, "stubs")+"/", 1)
	mod := filepath.Join(verifDir, "go.alt.mod")
	os.WriteFile(mod, []byte(alt), 0o644)
	sum, _ := os.ReadFile(filepath.Join(verifDir, "go.sum"))
	os.WriteFile(filepath.Join(verifDir, "go.alt.sum"), sum, 0o644)
	return mod
}

// verifDir is /verif; VERIF_DIR points a background run at its own snapshot of it
// (vp run), so that it neither reads binaries being rebuilt nor overwrites the
// evidence of the checks in /verif.
var verifDir = func() string {
	if d := os.Getenv("VERIF_DIR"); d != "" {
		return d
	}
	return "/verif"
}()

const goBin = "/opt/veriftools/go1.26.8/bin/go"

func buildEnv() []string {
	env := os.Environ()
	env = append(env, "GOFLAGS=-mod=mod", "GOPROXY=off", "GOSUMDB=off", "GOTOOLCHAIN=local", "CGO_ENABLED=1")
	return env
}

func workerEnv(race bool, procs int) []string {
	env := os.Environ()
	env = append(env,
		fmt.Sprintf("GOMAXPROCS=%d", procs),
		"GODEBUG=randautoseed=0,asyncpreemptoff=1",
		"GOLOG_LOG_LEVEL=fatal",
		"GOTRACEBACK=all",
	)
	if race {
		env = append(env, "GORACE=halt_on_error=1 exitcode=66")
	}
	// no collection inside a plan (ExecPlan collects between plans): the
	// collector's workers would take part in the scheduling order
	env = append(env, "GOGC=off")
	return env
}

func die2(format string, a ...interface{}) {
	fmt.Fprintf(os.Stderr, "vcheck: "+format+"\n", a...)
	os.Exit(2)
}

func main() {
	if len(os.Args) < 2 {
		die2("usage: vcheck <property|setup|list> [--tier quick|thorough] [--replay file] [--plan-seed N] [--keep]")
	}
	cmd := os.Args[1]
	tier := os.Getenv("VERIF_TIER")
	if tier == "" {
		tier = "quick"
	}
	replay := ""
	planSeed := uint64(0)
	havePlanSeed := false
	verbose := false
	for i := 2; i < len(os.Args); i++ {
		switch os.Args[i] {
		case "--tier":
			i++
			tier = os.Args[i]
		case "--replay":
			i++
			replay = os.Args[i]
		case "--plan-seed":
			i++
			v, err := strconv.ParseUint(os.Args[i], 10, 64)
			if err != nil {
				die2("bad --plan-seed")
			}
			planSeed, havePlanSeed = v, true
		case "-v":
			verbose = true
		default:
			die2("unknown argument %q", os.Args[i])
		}
	}
	if tier != "quick" && tier != "thorough" {
		die2("tier must be quick or thorough")
	}
	os.Chdir(verifDir)
	switch cmd {
	case "list":
		for _, s := range specs() {
			fmt.Printf("%s %s\n", s.ID, s.Harness)
		}
		return
	case "setup":
		setup()
		return
	}
	spec := findSpec(cmd)
	if spec == nil {
		die2("unknown property %q", cmd)
	}
	seed := int64(1)
	if v := os.Getenv("VERIF_SEED"); v != "" {
		s, err := strconv.ParseInt(v, 10, 64)
		if err != nil {
			die2("VERIF_SEED is not an integer")
		}
		seed = s
	}
	c := &check{spec: spec, tier: tier, seed: seed, verbose: verbose}
	if replay != "" {
		os.Exit(c.replay(replay))
	}
	if havePlanSeed {
		os.Exit(c.single(planSeed))
	}
	os.Exit(c.run())
}

// ------------------------------------------------------------------ build

func genOverlay() string {
	out, err := exec.Command("python3", filepath.Join(verifDir, "simrt", "gen.py")).CombinedOutput()
	if err != nil {
		die2("runtime overlay generation failed: %v\n%s", err, out)
	}
	return strings.TrimSpace(string(out))
}

func binPath(harness string, race bool) string {
	n := harness + ".test"
	if race {
		n = harness + ".race.test"
	}
	return filepath.Join(verifDir, "bin", n)
}

// build compiles a harness test binary against /repo's current working tree.
func build(harness string, race bool) string {
	ov := genOverlay()
	os.MkdirAll(filepath.Join(verifDir, "bin"), 0o755)
	// keep go.sum in step with /repo's (the replace points there)
	if b, err := os.ReadFile(filepath.Join(repoDir, "go.sum")); err == nil {
		mine, _ := os.ReadFile(filepath.Join(verifDir, "go.sum"))
		if !bytes.Contains(mine, b[:min(len(b), 200)]) {
			os.WriteFile(filepath.Join(verifDir, "go.sum"), append(mine, b...), 0o644)
		}
	}
	out := binPath(harness, race)
	// -checklinkname=0: crdtsim reaches ipfscluster.newPubSub through go:linkname
	args := []string{"test", "-c", "-vet=off", "-ldflags=-checklinkname=0", "-overlay", ov, "-o", out}
	if mf := altModfile(); mf != "" {
		args = append(args, "-modfile="+mf)
	}
	if race {
		args = append(args, "-race", "-gcflags=all=-d=checkptr=0")
	}
	args = append(args, "./harness/"+harness)
	cmd := exec.Command(goBin, args...)
	cmd.Dir = verifDir
	cmd.Env = buildEnv()
	b, err := cmd.CombinedOutput()
	if err != nil {
		die2("build of harness %s failed (exit 2: machinery, not a violation):\n%s", harness, b)
	}
	return out
}

func setup() {
	seen := map[string]bool{}
	for _, s := range specs() {
		k := fmt.Sprintf("%s/%v", s.Harness, s.Race)
		if seen[k] {
			continue
		}
		seen[k] = true
		t0 := time.Now()
		build(s.Harness, s.Race)
		fmt.Printf("built %s race=%v in %.1fs\n", s.Harness, s.Race, time.Since(t0).Seconds())
	}
}

// ------------------------------------------------------------------ check

type check struct {
	spec    *spec
	tier    string
	seed    int64
	verbose bool
	bin     string
	tmp     string
}

type crash struct {
	Seed   uint64
	Output string
	Exit   int
}

func (c *check) mktmp() {
	base := "/dev/shm"
	if st, err := os.Stat(base); err != nil || !st.IsDir() {
		base = os.TempDir()
	}
	c.tmp = filepath.Join(base, fmt.Sprintf("verif-%s-%d", c.spec.ID, os.Getpid()))
	os.RemoveAll(c.tmp)
	os.MkdirAll(c.tmp, 0o755)
}

func (c *check) cleanup() {
	if c.tmp != "" {
		os.RemoveAll(c.tmp)
	}
}

// runWorker executes one worker process and returns its results and, if it
// died, the crash record of the plan in flight.
func (c *check) runWorker(args []string, outFile string, timeout time.Duration, procs int) ([]*simplan.Result, *crash, error) {
	full := append([]string{"-test.run", "^TestSim$", "-test.timeout", "0", "-sim.out", outFile}, args...)
	if c.spec.Batch == 1 {
		// one plan per process: every plan is the first of its process, in
		// exploration, in the determinism self-test and in replay alike
		full = append(full, "-sim.nowarm")
	}
	cmd := exec.Command(c.bin, full...)
	cmd.Dir = c.tmp
	cmd.Env = append(workerEnv(c.spec.Race, procs), "VERIF_TMP="+c.tmp)
	var stderr bytes.Buffer
	cmd.Stderr = &stderr
	cmd.Stdout = &stderr
	if err := cmd.Start(); err != nil {
		return nil, nil, err
	}
	done := make(chan error, 1)
	go func() { done <- cmd.Wait() }()
	var werr error
	timedOut := false
	select {
	case werr = <-done:
	case <-time.After(timeout):
		cmd.Process.Kill()
		werr = <-done
		timedOut = true
	}
	res, inflight := parseOut(outFile)
	os.Remove(outFile)
	if timedOut {
		return res, &crash{Seed: inflight, Output: "watchdog: worker exceeded " + timeout.String() + "\n" + tail(stderr.String(), 4000), Exit: -1}, nil
	}
	if werr != nil {
		code := -1
		if ee, ok := werr.(*exec.ExitError); ok {
			code = ee.ExitCode()
		}
		return res, &crash{Seed: inflight, Output: headTail(stderr.String(), 6000, 9000), Exit: code}, nil
	}
	return res, nil, nil
}

func headTail(s string, h, t int) string {
	if len(s) <= h+t {
		return s
	}
	return s[:h] + "\n…\n" + s[len(s)-t:]
}

// systemPanic recognises a Go panic raised on a goroutine that runs none of the
// simulator's code: the program under test crashed its own process (every
// property presupposes a peer that stays up). A panic with a frame of /verif on
// the panicking goroutine, a test timeout or a runtime deadlock report is
// machinery trouble instead.
func systemPanic(out string) (string, bool) {
	lines := strings.Split(out, "\n")
	for i, l := range lines {
		if !strings.HasPrefix(l, "panic: ") || strings.HasPrefix(l, "panic: test timed out") {
			continue
		}
		msg := strings.TrimSpace(l)
		if len(msg) > 120 {
			msg = msg[:120]
		}
		j := i + 1
		for j < len(lines) && !strings.HasPrefix(lines[j], "goroutine ") {
			j++
		}
		first := ""
		for j++; j < len(lines) && strings.TrimSpace(lines[j]) != ""; j++ {
			t := strings.TrimSpace(lines[j])
			if strings.Contains(t, "verif/") || strings.Contains(t, "testing/synctest") && first == "" {
				return "", false
			}
			if first == "" && !strings.HasPrefix(t, "/") && !strings.HasPrefix(t, "panic(") && !strings.HasPrefix(t, "runtime.") {
				if k := strings.Index(t, "("); k > 0 {
					first = t[:k]
				} else {
					first = t
				}
			}
		}
		if first == "" {
			return "", false
		}
		return msg + ";" + first, true
	}
	return "", false
}

func tail(s string, n int) string {
	if len(s) > n {
		return "…" + s[len(s)-n:]
	}
	return s
}

func parseOut(path string) ([]*simplan.Result, uint64) {
	f, err := os.Open(path)
	if err != nil {
		return nil, 0
	}
	defer f.Close()
	var res []*simplan.Result
	var inflight uint64
	have := false
	sc := bufio.NewScanner(f)
	sc.Buffer(make([]byte, 1<<20), 64<<20)
	for sc.Scan() {
		line := sc.Bytes()
		if bytes.HasPrefix(line, []byte(`{"start":`)) {
			var m struct{ Start uint64 }
			json.Unmarshal(line, &m)
			inflight, have = m.Start, true
			continue
		}
		var r simplan.Result
		if json.Unmarshal(line, &r) == nil && r.Verdict != "" {
			res = append(res, &r)
			have = false
		}
	}
	if !have {
		inflight = 0
	}
	return res, inflight
}

type agg struct {
	mu          sync.Mutex
	evals       int
	digests     map[string]bool
	scheds      map[string]bool // distinct scheduling-order digests
	schedSteps  uint64
	coarse      map[string]bool
	simMs       int64
	ops         int
	faults      map[string]int
	probes      map[string]int
	viol        map[string][]*simplan.Result // key clause|signature
	errors      []*simplan.Result
	crashes     []*crash
	sampleSeeds []uint64
	detSample   []*simplan.Result
	// plans that used up their real-time budget and were ended at a step boundary
	abandoned      int
	abandonedSeeds []uint64
	wallMaxMs      int64
}

func (a *agg) add(r *simplan.Result) {
	a.mu.Lock()
	defer a.mu.Unlock()
	a.evals++
	a.simMs += r.SimTimeMs
	a.ops += r.Ops
	for k, v := range r.Faults {
		a.faults[k] += v
	}
	for k, v := range r.Probes {
		a.probes[k] += v
	}
	if r.SchedDigest != "" {
		a.scheds[r.SchedDigest] = true
		a.schedSteps += r.SchedSteps
	}
	if r.Nontrivial {
		a.digests[r.TraceDigest] = true
		a.coarse[r.CoarseSig] = true
		if len(a.sampleSeeds) < 3 {
			a.sampleSeeds = append(a.sampleSeeds, r.Seed)
		}
	}
	if r.WallMs > a.wallMaxMs {
		a.wallMaxMs = r.WallMs
	}
	if r.Abandoned != "" {
		a.abandoned++
		if len(a.abandonedSeeds) < 20 {
			a.abandonedSeeds = append(a.abandonedSeeds, r.Seed)
		}
	}
	switch r.Verdict {
	case "violation":
		for _, v := range r.Violations {
			k := v.Clause + "|" + v.Signature
			if len(a.viol[k]) < 50 {
				a.viol[k] = append(a.viol[k], r)
			}
		}
	case "error":
		if len(a.errors) < 20 {
			a.errors = append(a.errors, r)
		}
	}
	// deterministic sampling for the self-test: every 50th evaluation
	if r.Abandoned != "" {
		return // where it ended depends on the machine: no sample for the self-test
	}
	if a.evals%a.detEvery() == 1 && len(a.detSample) < 40 || (detOverride() > 0 && len(a.detSample) < detOverride()) {
		a.detSample = append(a.detSample, r)
	}
}

func (a *agg) detEvery() int { return 50 }

// detOverride: VERIF_DET_SAMPLES=<n> re-runs the first n plans in the determinism
// self-test instead of the usual sample (a larger trial of the machinery itself).
func detOverride() int {
	n, _ := strconv.Atoi(os.Getenv("VERIF_DET_SAMPLES"))
	return n
}

func (c *check) budget() (secs float64, maxPlans int) {
	if c.tier == "thorough" {
		return c.spec.ThoroughSecs, c.spec.ThoroughPlans
	}
	return c.spec.QuickSecs, c.spec.QuickPlans
}

func (c *check) baseSeed() uint64 {
	// plan i of a run uses base+i; base is far apart for different VERIF_SEEDs
	return (simplan.Mix64(uint64(c.seed)) % (1 << 40)) + 1
}

type partOutcome struct {
	exit     int
	trouble  string
	detRe    int
	detSame  int
	nviol    int
	known    []knownFinding
	buildS   float64
	exploreS float64
}

func (c *check) run() int {
	t0 := time.Now()
	defer c.cleanup()
	c.mktmp()
	a := &agg{digests: map[string]bool{}, scheds: map[string]bool{}, coarse: map[string]bool{}, faults: map[string]int{}, probes: map[string]int{}, viol: map[string][]*simplan.Result{}}
	parts := c.spec.Parts
	if len(parts) == 0 {
		parts = []part{{Harness: c.spec.Harness, Share: 1}}
	}
	var total partOutcome
	base := c.baseSeed()
	for k, pt := range parts {
		sub := *c.spec
		sub.Harness = pt.Harness
		if pt.Batch > 0 {
			sub.Batch = pt.Batch
		}
		cc := &check{spec: &sub, tier: c.tier, seed: c.seed, verbose: c.verbose, tmp: c.tmp}
		o := cc.runPart(a, pt.Share, base+uint64(k)<<32)
		if o.exit > total.exit {
			total.exit = o.exit
		}
		total.trouble += o.trouble
		total.detRe += o.detRe
		total.detSame += o.detSame
		total.nviol += o.nviol
		for _, kf := range o.known {
			total.known = appendKnown(total.known, kf)
		}
		total.buildS += o.buildS
		total.exploreS += o.exploreS
		c.bin = cc.bin
	}
	for _, kf := range total.known {
		fmt.Printf("KNOWN-FINDING: property=%s %s\n", c.spec.ID, kf.What)
	}
	if c.tier == "thorough" && total.exit == 0 {
		for _, p := range c.spec.RequiredProbes {
			if a.probes[p] == 0 && a.faults[p] == 0 {
				total.trouble += fmt.Sprintf("\nprobe %q was never hit in a thorough run: the workload does not reach what it claims", p)
			}
		}
	}
	wall := time.Since(t0).Seconds()
	c.writeEvidence(a, wall, total.exploreS, total.buildS, total.detRe, total.detSame, total.nviol, total.known, base)
	fmt.Printf("%s %s: %d plans (%d distinct non-trivial traces, %d shapes), %.0f simulated s, %.1fs wall (build %.1fs), determinism %d/%d, violations %d, known findings %d\n",
		c.spec.ID, c.tier, a.evals, len(a.digests), len(a.coarse), float64(a.simMs)/1000, wall, total.buildS, total.detSame, total.detRe, total.nviol, len(total.known))
	if a.abandoned > 0 {
		fmt.Printf("%s %s: %d of those plans used up their real-time budget on this machine and were ended at a step boundary without their end-of-plan clauses (not judged; seeds %v)\n", c.spec.ID, c.tier, a.abandoned, a.abandonedSeeds)
	}
	if total.exit == 1 {
		return 1
	}
	if strings.TrimSpace(total.trouble) != "" {
		fmt.Fprintf(os.Stderr, "vcheck: MACHINERY TROUBLE (exit 2, not a violation):%s\n", total.trouble)
		return 2
	}
	return 0
}

// runPart explores one harness of the check and handles its violations.
func (c *check) runPart(a *agg, share float64, base uint64) partOutcome {
	var out partOutcome
	t0 := time.Now()
	c.bin = build(c.spec.Harness, c.spec.Race)
	buildS := time.Since(t0).Seconds()
	out.buildS = buildS
	evals0 := a.evals
	abandoned0 := a.abandoned
	a.viol = map[string][]*simplan.Result{}
	a.errors = nil
	a.crashes = nil
	a.detSample = nil

	secs, maxPlans := c.budget()
	if v := os.Getenv("VERIF_BUDGET_S"); v != "" {
		if f, err := strconv.ParseFloat(v, 64); err == nil {
			secs = f
		}
	}
	secs *= share
	if maxPlans > 0 {
		maxPlans = int(float64(maxPlans) * share)
	}
	var next uint64
	workers := c.spec.Workers
	if workers == 0 {
		workers = 16
	}
	batch := c.spec.Batch
	if batch == 0 {
		batch = 1
	}
	deadline := time.Now().Add(time.Duration(secs * float64(time.Second)))
	var wg sync.WaitGroup
	var stop int32
	for w := 0; w < workers; w++ {
		wg.Add(1)
		go func(w int) {
			defer wg.Done()
			for atomic.LoadInt32(&stop) == 0 && time.Now().Before(deadline) {
				from := atomic.AddUint64(&next, uint64(batch)) - uint64(batch)
				if maxPlans > 0 && int(from) >= maxPlans {
					return
				}
				n := batch
				if maxPlans > 0 && int(from)+n > maxPlans {
					n = maxPlans - int(from)
				}
				out := filepath.Join(c.tmp, fmt.Sprintf("w%d-%d.jsonl", w, from))
				remain := time.Until(deadline).Seconds()
				args := []string{"-sim.cmd=batch", "-sim.prop=" + c.spec.ID, "-sim.tier=" + c.tier,
					fmt.Sprintf("-sim.from=%d", base+from), fmt.Sprintf("-sim.count=%d", n),
					fmt.Sprintf("-sim.deadline=%.1f", remain+1), fmt.Sprintf("-sim.planwall=%.1f", c.spec.planWallS())}
				// The worker starts no plan after the deadline and a plan ends itself at
				// its next step boundary once its real-time budget (half the plan timeout)
				// is used up, so only the last plan can overrun; the watchdog is for a
				// worker that is stuck, not for one that is slow on a loaded machine.
				res, cr, err := c.runWorker(args, out, time.Duration(remain+1+3*c.spec.PlanTimeoutS+60)*time.Second, c.spec.Procs())
				if err != nil {
					a.mu.Lock()
					a.crashes = append(a.crashes, &crash{Output: "cannot start worker: " + err.Error()})
					a.mu.Unlock()
					atomic.StoreInt32(&stop, 1)
					return
				}
				for _, r := range res {
					a.add(r)
				}
				if cr != nil {
					a.mu.Lock()
					a.crashes = append(a.crashes, cr)
					a.mu.Unlock()
				}
			}
		}(w)
	}
	wg.Wait()
	out.exploreS = time.Since(t0).Seconds() - buildS

	// ---- classify
	known := loadKnown(c.spec.ID)
	var knownHit []knownFinding
	type unk struct {
		key string
		rs  []*simplan.Result
	}
	var unknown []unk
	for _, k := range sortedKeys(a.viol) {
		rs := a.viol[k]
		parts := strings.SplitN(k, "|", 2)
		if kf, ok := matchKnown(known, parts[0], parts[1]); ok {
			knownHit = appendKnown(knownHit, kf)
			continue
		}
		unknown = append(unknown, unk{k, rs})
	}
	// crashes: for race/panic properties a crash with a race report or panic
	// is a violation; elsewhere it is machinery trouble.
	var crashViol []*crash
	var crashTrouble []*crash
	for _, cr := range a.crashes {
		if c.spec.CrashIsViolation && cr.Exit != -1 && !harnessOnlyRace(cr.Output) && (strings.Contains(cr.Output, "DATA RACE") || strings.Contains(cr.Output, "panic:") || strings.Contains(cr.Output, "fatal error:")) {
			sig := crashSignature(cr.Output)
			if kf, ok := matchKnown(known, c.spec.ID+"/crash", sig); ok {
				knownHit = appendKnown(knownHit, kf)
				continue
			}
			dup := false
			for _, x := range crashViol {
				if crashSignature(x.Output) == sig {
					dup = true
				}
			}
			if !dup {
				crashViol = append(crashViol, cr)
			}
		} else if sig, ok := systemPanic(cr.Output); ok && cr.Exit != -1 {
			// the peer process itself died on a goroutine of the code under test
			if kf, ok := matchKnown(known, c.spec.ID+"/crash", sig); ok {
				knownHit = appendKnown(knownHit, kf)
				continue
			}
			dup := false
			for _, x := range crashViol {
				if xs, _ := systemPanic(x.Output); xs == sig {
					dup = true
				}
			}
			if !dup {
				crashViol = append(crashViol, cr)
			}
		} else {
			crashTrouble = append(crashTrouble, cr)
		}
	}

	// ---- determinism self-test
	detRe, detSame := 0, 0
	var detDiff []string
	if len(unknown) == 0 && len(crashViol) == 0 {
		lim := c.spec.DetSamples
		if lim == 0 {
			lim = 12
		}
		if c.tier == "thorough" {
			lim *= 3
		}
		if detOverride() > 0 {
			lim = detOverride()
		}
		samples := a.detSample
		if len(samples) > lim {
			samples = samples[:lim]
		}
		var mu sync.Mutex
		var dwg sync.WaitGroup
		sem := make(chan struct{}, workers)
		for i, r := range samples {
			dwg.Add(1)
			sem <- struct{}{}
			go func(i int, r *simplan.Result) {
				defer dwg.Done()
				defer func() { <-sem }()
				out := filepath.Join(c.tmp, fmt.Sprintf("det-%d.jsonl", i))
				args := []string{"-sim.cmd=batch", "-sim.prop=" + c.spec.ID, "-sim.tier=" + c.tier,
					fmt.Sprintf("-sim.from=%d", r.Seed), "-sim.count=1"}
				res, _, err := c.runWorker(args, out, time.Duration(c.spec.PlanTimeoutS+60)*time.Second, c.spec.Procs())
				if err != nil || len(res) != 1 {
					return
				}
				mu.Lock()
				detRe++
				if res[0].TraceDigest == r.TraceDigest {
					detSame++
				} else {
					detDiff = append(detDiff, fmt.Sprintf("seed %d: %s vs %s", r.Seed, r.TraceDigest, res[0].TraceDigest))
				}
				mu.Unlock()
			}(i, r)
		}
		dwg.Wait()
	}

	// ---- report
	for _, kf := range knownHit {
		out.known = appendKnown(out.known, kf)
	}
	for _, u := range unknown {
		r := u.rs[0]
		for _, x := range u.rs {
			if x.Steps < r.Steps {
				r = x
			}
		}
		parts := strings.SplitN(u.key, "|", 2)
		path := c.shrinkAndWrite(r.Seed, parts[0], parts[1])
		fmt.Printf("VIOLATION property=%s replay=%s\n", c.spec.ID, path)
		fmt.Printf("  clause=%s seed=%d witness=%s\n", parts[0], r.Seed, firstDetail(r, parts[0]))
		out.exit = 1
	}
	for i, cr := range crashViol {
		path := c.writeCrashReplay(cr, i)
		fmt.Printf("VIOLATION property=%s replay=%s\n", c.spec.ID, path)
		fmt.Printf("  clause=%s/crash seed=%d\n%s\n", c.spec.ID, cr.Seed, indent(tail(cr.Output, 3000)))
		out.exit = 1
	}
	out.nviol = len(unknown) + len(crashViol)
	if len(crashTrouble) > 0 {
		out.trouble += fmt.Sprintf("\n[%s] %d worker crash(es)/watchdog(s); first (seed %d, exit %d):\n%s", c.spec.Harness, len(crashTrouble), crashTrouble[0].Seed, crashTrouble[0].Exit, crashTrouble[0].Output)
	}
	if len(a.errors) > 0 {
		out.trouble += fmt.Sprintf("\n[%s] %d plan(s) ended in harness error; first (seed %d): %s", c.spec.Harness, len(a.errors), a.errors[0].Seed, a.errors[0].Error)
	}
	if a.evals == evals0 {
		out.trouble += fmt.Sprintf("\n[%s] no plan was executed", c.spec.Harness)
	} else if a.evals-evals0 <= a.abandoned-abandoned0 {
		out.trouble += fmt.Sprintf("\n[%s] every plan used up its real-time budget (%.0fs) before it ended: nothing was judged", c.spec.Harness, c.spec.planWallS())
	}
	out.detRe, out.detSame = detRe, detSame
	if len(detDiff) > 0 {
		fmt.Fprintf(os.Stderr, "[%s] determinism self-test: %d/%d identical; differing: %v\n", c.spec.Harness, detSame, detRe, detDiff)
	}
	if detRe > 0 {
		thr := c.spec.DetThreshold
		if thr == 0 {
			thr = 1.0
		}
		if float64(detSame)/float64(detRe) < thr {
			out.trouble += fmt.Sprintf("\n[%s] determinism self-test below threshold: %d/%d identical (need %.0f%%): %v", c.spec.Harness, detSame, detRe, thr*100, detDiff)
		}
	}
	return out
}

func indent(s string) string { return "    " + strings.ReplaceAll(s, "\n", "\n    ") }

func firstDetail(r *simplan.Result, clause string) string {
	for _, v := range r.Violations {
		if v.Clause == clause {
			return v.Detail
		}
	}
	return ""
}

// harnessOnlyRace: both accesses of the first race report are made directly by
// simulator code (top frame under verif/): a bug of the harness, not of the
// code under test.
func harnessOnlyRace(out string) bool {
	i := strings.Index(out, "WARNING: DATA RACE")
	if i < 0 {
		return false
	}
	lines := strings.Split(out[i:], "\n")
	tops := []string{}
	for j, l := range lines {
		t := strings.TrimSpace(l)
		if (strings.HasPrefix(t, "Write at") || strings.HasPrefix(t, "Read at") || strings.HasPrefix(t, "Previous write at") || strings.HasPrefix(t, "Previous read at") || strings.HasPrefix(t, "Atomic") || strings.HasPrefix(t, "Previous atomic")) && j+1 < len(lines) {
			tops = append(tops, strings.TrimSpace(lines[j+1]))
		}
		if strings.HasPrefix(t, "Goroutine ") || len(tops) == 2 {
			break
		}
	}
	if len(tops) < 2 {
		return false
	}
	return strings.HasPrefix(tops[0], "verif/") && strings.HasPrefix(tops[1], "verif/")
}

func crashSignature(out string) string {
	if sig, ok := systemPanic(out); ok && !strings.Contains(out, "DATA RACE") {
		return sig
	}
	// the first function names of a race report / panic, normalised
	lines := strings.Split(out, "\n")
	var sig []string
	for i, l := range lines {
		if strings.Contains(l, "DATA RACE") || strings.HasPrefix(l, "panic:") || strings.HasPrefix(l, "fatal error:") {
			sig = append(sig, strings.TrimSpace(l))
			for j := i + 1; j < len(lines) && len(sig) < 6; j++ {
				t := strings.TrimSpace(lines[j])
				if strings.HasPrefix(t, "github.com/ipfs/ipfs-cluster") {
					if k := strings.Index(t, "("); k > 0 {
						t = t[:k]
					}
					sig = append(sig, t)
				}
			}
			break
		}
	}
	return strings.Join(sig, ";")
}

func sortedKeys[V any](m map[string]V) []string {
	ks := make([]string, 0, len(m))
	for k := range m {
		ks = append(ks, k)
	}
	sort.Strings(ks)
	return ks
}

// ------------------------------------------------------------------ plans, shrink, replay

func (c *check) genPlan(seed uint64) *simplan.Plan {
	out := filepath.Join(c.tmp, fmt.Sprintf("gen-%d.json", seed))
	args := []string{"-sim.cmd=gen", "-sim.prop=" + c.spec.ID, "-sim.tier=" + c.tier, fmt.Sprintf("-sim.from=%d", seed)}
	full := append([]string{"-test.run", "^TestSim$", "-sim.out", out}, args...)
	cmd := exec.Command(c.bin, full...)
	cmd.Env = workerEnv(c.spec.Race, 1)
	if b, err := cmd.CombinedOutput(); err != nil {
		die2("plan generation failed: %v\n%s", err, b)
	}
	b, err := os.ReadFile(out)
	if err != nil {
		die2("plan generation produced nothing")
	}
	os.Remove(out)
	var p simplan.Plan
	if err := json.Unmarshal(b, &p); err != nil {
		die2("cannot decode generated plan: %v", err)
	}
	return &p
}

var runCounter uint64

// runPlan executes one explicit plan in a fresh process.
func (c *check) runPlan(p *simplan.Plan, traceOut string) (*simplan.Result, *crash) {
	id := atomic.AddUint64(&runCounter, 1)
	pf := filepath.Join(c.tmp, fmt.Sprintf("plan-%d.json", id))
	of := filepath.Join(c.tmp, fmt.Sprintf("res-%d.jsonl", id))
	b, _ := json.Marshal(p)
	os.WriteFile(pf, b, 0o644)
	defer os.Remove(pf)
	args := []string{"-sim.cmd=run", "-sim.plan=" + pf}
	if traceOut != "" {
		args = append(args, "-sim.trace="+traceOut)
	}
	res, cr, err := c.runWorker(args, of, time.Duration(c.spec.PlanTimeoutS+60)*time.Second, c.spec.Procs())
	if err != nil {
		die2("cannot run worker: %v", err)
	}
	if len(res) == 1 {
		return res[0], cr
	}
	return nil, cr
}

func hasClause(r *simplan.Result, clause string) bool {
	if r == nil {
		return false
	}
	for _, v := range r.Violations {
		if v.Clause == clause {
			return true
		}
	}
	return false
}

// shrink is delta debugging over the step list: a candidate is kept when it
// violates the same clause of the same property.
func (c *check) shrink(p *simplan.Plan, clause string) (*simplan.Plan, int) {
	runs := 0
	t0 := time.Now()
	ok := func(q *simplan.Plan) bool {
		if runs >= 200 || time.Since(t0) > 120*time.Second {
			return false
		}
		runs++
		r, _ := c.runPlan(q, "")
		return hasClause(r, clause)
	}
	cur := p
	n := 2
	for len(cur.Steps) >= 2 && runs < 200 && time.Since(t0) < 120*time.Second {
		chunk := (len(cur.Steps) + n - 1) / n
		reduced := false
		for i := 0; i < len(cur.Steps); i += chunk {
			q := *cur
			q.Steps = append(append([]json.RawMessage{}, cur.Steps[:i]...), cur.Steps[min(i+chunk, len(cur.Steps)):]...)
			if ok(&q) {
				cur = &q
				n = max(n-1, 2)
				reduced = true
				break
			}
		}
		if !reduced {
			if chunk == 1 {
				break
			}
			n = min(n*2, len(cur.Steps))
		}
	}
	// runtime tie-break seed 0 is the simplest schedule
	if cur.RTSeed != 0 {
		q := *cur
		q.RTSeed = 0
		if ok(&q) {
			cur = &q
		}
	}
	return cur, runs
}

type replayFile struct {
	Property string        `json:"property"`
	Harness  string        `json:"harness"`
	Seed     uint64        `json:"seed"`
	Plan     *simplan.Plan `json:"plan"`
	Expected struct {
		Clause      string `json:"clause"`
		Signature   string `json:"signature"`
		Detail      string `json:"detail"`
		TraceDigest string `json:"trace_digest"`
	} `json:"expected"`
	Shrink struct {
		StepsBefore int `json:"steps_before"`
		StepsAfter  int `json:"steps_after"`
		Runs        int `json:"runs"`
	} `json:"shrink"`
	Build struct {
		Go       string `json:"go"`
		RepoTree string `json:"repo_tree"`
	} `json:"build"`
	Trace  string `json:"trace,omitempty"`
	Crash  string `json:"crash,omitempty"`
	Replay string `json:"replay_cmd"`
}

func repoTree() string {
	out, err := exec.Command("git", "-C", repoDir, "rev-parse", "HEAD").Output()
	if err != nil {
		return "unknown"
	}
	d, _ := exec.Command("git", "-C", repoDir, "status", "--porcelain").Output()
	s := strings.TrimSpace(string(out))
	if len(bytes.TrimSpace(d)) > 0 {
		s += "+dirty"
	}
	return s
}

func (c *check) shrinkAndWrite(seed uint64, clause, sig string) string {
	p := c.genPlan(seed)
	before := len(p.Steps)
	small, runs := c.shrink(p, clause)
	tf := filepath.Join(c.tmp, "trace.txt")
	r, _ := c.runPlan(small, tf)
	if !hasClause(r, clause) { // shrunk plan must replay in a fresh process; fall back to the original
		small = p
		r, _ = c.runPlan(small, tf)
	}
	var rf replayFile
	rf.Property, rf.Harness, rf.Seed, rf.Plan = c.spec.ID, c.spec.Harness, seed, small
	rf.Expected.Clause, rf.Expected.Signature = clause, sig
	if r != nil {
		rf.Expected.TraceDigest = r.TraceDigest
		rf.Expected.Detail = firstDetail(r, clause)
	}
	rf.Shrink.StepsBefore, rf.Shrink.StepsAfter, rf.Shrink.Runs = before, len(small.Steps), runs
	rf.Build.Go, rf.Build.RepoTree = "go1.26.8+simrt overlay", repoTree()
	if b, err := os.ReadFile(tf); err == nil {
		rf.Trace = string(b)
	}
	dir := filepath.Join(verifDir, "replays")
	os.MkdirAll(dir, 0o755)
	tag := sanitize(clause)
	if sig != "" {
		x := sanitize(sig)
		if len(x) > 28 {
			x = x[:28]
		}
		tag += "-" + x
	}
	path := filepath.Join(dir, fmt.Sprintf("%s-%s-%d.json", c.spec.ID, tag, seed))
	rf.Replay = fmt.Sprintf("./bin/vcheck %s --replay %s", c.spec.ID, path)
	b, _ := json.MarshalIndent(&rf, "", " ")
	os.WriteFile(path, b, 0o644)
	return path
}

func (c *check) writeCrashReplay(cr *crash, i int) string {
	var rf replayFile
	rf.Property, rf.Harness, rf.Seed = c.spec.ID, c.spec.Harness, cr.Seed
	if cr.Seed != 0 {
		rf.Plan = c.genPlan(cr.Seed)
	}
	rf.Expected.Clause = c.spec.ID + "/crash"
	rf.Expected.Signature = crashSignature(cr.Output)
	rf.Crash = cr.Output
	rf.Build.Go, rf.Build.RepoTree = "go1.26.8+simrt overlay", repoTree()
	dir := filepath.Join(verifDir, "replays")
	os.MkdirAll(dir, 0o755)
	path := filepath.Join(dir, fmt.Sprintf("%s-crash-%d-%d.json", c.spec.ID, cr.Seed, i))
	rf.Replay = fmt.Sprintf("./bin/vcheck %s --replay %s", c.spec.ID, path)
	b, _ := json.MarshalIndent(&rf, "", " ")
	os.WriteFile(path, b, 0o644)
	return path
}

func sanitize(s string) string {
	return strings.Map(func(r rune) rune {
		if (r >= 'a' && r <= 'z') || (r >= 'A' && r <= 'Z') || (r >= '0' && r <= '9') || r == '_' {
			return r
		}
		return '_'
	}, s)
}

// replay re-executes a replay file in a fresh process.
func (c *check) replay(path string) int {
	defer c.cleanup()
	c.mktmp()
	b, err := os.ReadFile(path)
	if err != nil {
		die2("cannot read replay file: %v", err)
	}
	var rf replayFile
	if err := json.Unmarshal(b, &rf); err != nil {
		die2("cannot decode replay file: %v", err)
	}
	if rf.Plan == nil {
		die2("replay file carries no plan")
	}
	if rf.Harness != "" {
		sub := *c.spec
		sub.Harness = rf.Harness
		c.spec = &sub
	}
	c.bin = build(c.spec.Harness, c.spec.Race)
	attempts := 1
	if c.spec.DetThreshold > 0 && c.spec.DetThreshold < 1 {
		attempts = 20
	}
	if rf.Crash != "" {
		attempts = 30 // race/panic reproduction is statistical (DESIGN C18)
	}
	reproduced, exact := false, false
	var last *simplan.Result
	for i := 0; i < attempts; i++ {
		tf := ""
		if c.verbose {
			tf = filepath.Join(c.tmp, "trace.txt")
		}
		r, cr := c.runPlan(rf.Plan, tf)
		if rf.Crash != "" {
			if cr != nil && crashSignature(cr.Output) == rf.Expected.Signature {
				reproduced, exact = true, true
				fmt.Println(indent(tail(cr.Output, 3000)))
				break
			}
			continue
		}
		last = r
		if hasClause(r, rf.Expected.Clause) {
			reproduced = true
			if r.TraceDigest == rf.Expected.TraceDigest {
				exact = true
				if c.verbose {
					tb, _ := os.ReadFile(tf)
					fmt.Print(string(tb))
				}
				break
			}
		}
	}
	if reproduced {
		fmt.Printf("VIOLATION property=%s replay=%s\n", c.spec.ID, path)
		fmt.Printf("  reproduced=true exact_trace=%v clause=%s\n", exact, rf.Expected.Clause)
		if last != nil {
			fmt.Printf("  witness=%s\n", firstDetail(last, rf.Expected.Clause))
		}
		return 1
	}
	fmt.Printf("replay of %s: not reproduced on this tree (clause %s)\n", path, rf.Expected.Clause)
	return 0
}

// single runs one generated plan by seed, verbosely.
func (c *check) single(seed uint64) int {
	defer c.cleanup()
	c.mktmp()
	c.bin = build(c.spec.Harness, c.spec.Race)
	p := c.genPlan(seed)
	tf := filepath.Join(c.tmp, "trace.txt")
	r, cr := c.runPlan(p, tf)
	pb, _ := json.MarshalIndent(p, "", " ")
	fmt.Println(string(pb))
	if tb, err := os.ReadFile(tf); err == nil {
		fmt.Print(string(tb))
	}
	if cr != nil {
		fmt.Println(cr.Output)
	}
	if r != nil {
		rb, _ := json.MarshalIndent(r, "", " ")
		fmt.Println(string(rb))
		if r.Verdict == "violation" {
			return 1
		}
	}
	return 0
}

// ------------------------------------------------------------------ known findings

type knownFinding struct {
	Property  string `json:"property"`
	Clause    string `json:"clause"`
	Signature string `json:"signature"` // substring that must occur in the violation's signature ("" = any)
	What      string `json:"what"`
	Status    string `json:"status"` // known | fixed
	Commit    string `json:"commit,omitempty"`
}

func loadKnown(prop string) []knownFinding {
	f, err := os.Open(filepath.Join(verifDir, "known_findings.jsonl"))
	if err != nil {
		return nil
	}
	defer f.Close()
	var out []knownFinding
	sc := bufio.NewScanner(f)
	sc.Buffer(make([]byte, 1<<20), 1<<22)
	for sc.Scan() {
		line := strings.TrimSpace(sc.Text())
		if line == "" || strings.HasPrefix(line, "#") || strings.HasPrefix(line, "fixed:") {
			continue
		}
		var k knownFinding
		if json.Unmarshal([]byte(line), &k) == nil && k.Property == prop && k.Status == "known" {
			out = append(out, k)
		}
	}
	return out
}

func matchKnown(ks []knownFinding, clause, sig string) (knownFinding, bool) {
	for _, k := range ks {
		if k.Clause == clause && (k.Signature == "" || strings.Contains(sig, k.Signature)) {
			return k, true
		}
	}
	return knownFinding{}, false
}

func appendKnown(xs []knownFinding, k knownFinding) []knownFinding {
	for _, x := range xs {
		if x.Clause == k.Clause && x.Signature == k.Signature {
			return xs
		}
	}
	return append(xs, k)
}

// ------------------------------------------------------------------ evidence

func (c *check) writeEvidence(a *agg, wall, exploreS, buildS float64, detRe, detSame, violations int, known []knownFinding, base uint64) {
	var samples []interface{}
	for _, s := range a.sampleSeeds {
		p := c.genPlan(s)
		samples = append(samples, p)
	}
	if len(samples) == 0 && a.evals > 0 {
		samples = append(samples, c.genPlan(base))
	}
	pph := 0.0
	if exploreS > 0 {
		pph = float64(a.evals) / exploreS * 3600
	}
	var kf []string
	for _, k := range known {
		kf = append(kf, k.Clause+": "+k.What)
	}
	ev := map[string]interface{}{
		"property_id": c.spec.ID,
		"tier":        c.tier,
		"seed":        c.seed,
		"level":       c.spec.Level,
		"wall_s":      round1(wall),
		"violations":  violations,
		"assumptions": c.spec.Assumptions,
		"coverage": map[string]interface{}{
			"evaluations":          a.evals,
			"distinct_nontrivial":  len(a.digests),
			"rule":                 c.spec.Rule,
			"samples":              samples,
			"exhaustive":           false,
			"distinct_shapes":      len(a.coarse),
			"distinct_schedules":   len(a.scheds),
			"scheduling_decisions": a.schedSteps,
			"interleaving_measure": "distinct_schedules = number of distinct values of a rolling hash over the goroutine ids in the order the (single-P) Go scheduler ran them during a plan; distinct_nontrivial = distinct canonical traces of simulator-visible events; distinct_shapes = distinct (who, kind) event sequences",
			"client_operations":    a.ops,
			"sim_time_s":           round1(float64(a.simMs) / 1000),
			"plans_per_hour":       int(pph),
			"plans_abandoned_wall_budget": map[string]interface{}{"count": a.abandoned, "seeds": a.abandonedSeeds, "budget_s": c.spec.planWallS(),
				"meaning": "plans whose execution used more real time than the per-plan budget on this machine; they were ended at their next step boundary, clauses evaluated up to there stand, end-of-plan clauses were not evaluated"},
			"plan_wall_ms_max":   a.wallMaxMs,
			"plan_seed_first":    base,
			"plan_seed_last":     base + uint64(max(a.evals-1, 0)),
			"fault_counts":       a.faults,
			"probe_counts":       a.probes,
			"determinism":        map[string]int{"replayed_in_fresh_process": detRe, "identical_trace": detSame},
			"components":         map[string]interface{}{"real": c.spec.Real, "model": c.spec.Model},
			"known_findings_hit": kf,
			"build_s":            round1(buildS),
			"harness":            c.spec.Harness,
			"race_build":         c.spec.Race,
			"technique":          "deterministic simulation with fault injection: seeded plans (ops + faults + knobs) executed in a synctest bubble on a patched deterministic runtime; oracles = reference model + invariants at quiescent instants and over the recorded history",
		},
	}
	os.MkdirAll(filepath.Join(verifDir, "evidence"), 0o755)
	b, _ := json.MarshalIndent(ev, "", " ")
	os.WriteFile(filepath.Join(verifDir, "evidence", c.spec.ID+".json"), b, 0o644)
}

func round1(f float64) float64 { return float64(int(f*10+0.5)) / 10 }
