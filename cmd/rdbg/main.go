package main

import (
	"fmt"
	"os"

	hraft "github.com/hashicorp/raft"
	raftboltdb "github.com/hashicorp/raft-boltdb"
)

func main() {
	st, err := raftboltdb.NewBoltStore(os.Args[1])
	if err != nil {
		panic(err)
	}
	f, _ := st.FirstIndex()
	l, _ := st.LastIndex()
	fmt.Println("first", f, "last", l)
	for i := f; i <= l; i++ {
		var lg hraft.Log
		if err := st.GetLog(i, &lg); err != nil {
			fmt.Println(i, err)
			continue
		}
		fmt.Printf("idx=%d term=%d type=%v len=%d\n", lg.Index, lg.Term, lg.Type, len(lg.Data))
		if lg.Type == hraft.LogConfiguration {
			fmt.Printf("   %q\n", lg.Data)
		}
	}
}
